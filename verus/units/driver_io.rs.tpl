// Unit `driver_io`: the send / receive stream wrappers of wtransport/src/driver/streams/mod.rs
// (C06: termination signals carry their codes; finish succeeds only once everything is acknowledged).
//
// Bodies extracted from /repo (`async fn` by R9). quinn's SendStream / RecvStream are ASSUMED
// stand-ins: each operation answers by an unknown outcome (an uninterpreted function of the handle),
// `reset` / `stop` record the code they were given.
use vstd::prelude::*;

// verif: counter-overflow-undecided
verus! {

#[derive(Clone, Copy)]
struct VarInt { v: u64 }
impl VarInt {
    fn into_inner(self) -> (r: u64) ensures r == self.v { self.v }
    fn from_u32(value: u32) -> (r: VarInt) ensures r.v == value as u64 { VarInt { v: value as u64 } }
}
#[derive(Clone, Copy)]
struct QVarInt { v: u64 }
// driver/utils.rs conversions keep the value for all 2^62 codes (Kani p_varint_conversions_identity
// on the real crate)
#[verifier::external_body]
fn varint_w2q(varint: VarInt) -> (r: QVarInt) ensures r.v == varint.v { unimplemented!() }
#[verifier::external_body]
fn varint_q2w(varint: QVarInt) -> (r: VarInt) ensures r.v == varint.v { unimplemented!() }

//@ extract wtransport/src/error.rs >> enum StreamWriteError
//@ noderive
//@ end
//@ extract wtransport/src/error.rs >> struct ClosedStream
//@ end
//@ extract wtransport/src/driver/streams/mod.rs >> struct AlreadyStop
//@ end

// ---- assumed: quinn ------------------------------------------------------------------------------
#[verifier::external_body]
struct ConnectionErrorQ { x: u8 }
enum StoppedError { ConnectionLost(ConnectionErrorQ), ZeroRttRejected }
struct QClosedStream;
// what `stopped().await` will answer for this stream: Ok(None) = finished and every byte
// acknowledged, Ok(Some(c)) = the peer sent STOP_SENDING(c)
struct QuinnSendStream { id: u64, finished: Ghost<bool>, reset_with: Ghost<Option<u64>> }
uninterp spec fn stopped_outcome(id: u64) -> Result<Option<QVarInt>, StoppedError>;
uninterp spec fn finish_outcome(id: u64) -> Result<(), QClosedStream>;
uninterp spec fn reset_outcome(id: u64) -> Result<(), QClosedStream>;
impl QuinnSendStream {
    #[verifier::external_body]
    fn finish(&mut self) -> (r: Result<(), QClosedStream>)
        ensures r == finish_outcome(old(self).id), final(self).id == old(self).id, final(self).reset_with == old(self).reset_with,
    { unimplemented!() }
    #[verifier::external_body]
    fn stopped(&mut self) -> (r: Result<Option<QVarInt>, StoppedError>)
        ensures r == stopped_outcome(old(self).id), *final(self) == *old(self),
    { unimplemented!() }
    #[verifier::external_body]
    fn reset(&mut self, error_code: QVarInt) -> (r: Result<(), QClosedStream>)
        ensures r == reset_outcome(old(self).id), final(self).id == old(self).id,
            r is Ok ==> final(self).reset_with@ == Some(error_code.v),
    { unimplemented!() }
}
struct QuinnRecvStream { id: u64, stopped_with: Ghost<Option<u64>> }
uninterp spec fn stop_outcome(id: u64) -> Result<(), QClosedStream>;
impl QuinnRecvStream {
    #[verifier::external_body]
    fn stop(&mut self, error_code: QVarInt) -> (r: Result<(), QClosedStream>)
        ensures r == stop_outcome(old(self).id), final(self).id == old(self).id,
            r is Ok ==> final(self).stopped_with@ == Some(error_code.v),
    { unimplemented!() }
}

//@ extract wtransport/src/driver/streams/mod.rs >> struct QuicSendStream
//@ rename `quinn::SendStream` => `QuinnSendStream`
//@ end
//@ extract wtransport/src/driver/streams/mod.rs >> struct QuicRecvStream
//@ rename `quinn::RecvStream` => `QuinnRecvStream`
//@ end

// the stopped-notification: STOP_SENDING(c) is reported as Stopped(c) with the same code
spec fn stopped_spec(id: u64) -> StreamWriteError {
    match stopped_outcome(id) {
        Ok(None) => StreamWriteError::Closed,
        Ok(Some(c)) => StreamWriteError::Stopped(VarInt { v: c.v }),
        Err(StoppedError::ConnectionLost(_)) => StreamWriteError::NotConnected,
        Err(StoppedError::ZeroRttRejected) => StreamWriteError::QuicProto,
    }
}

impl QuicSendStream {
//@ extract wtransport/src/driver/streams/mod.rs >> impl QuicSendStream >> fn stopped
//@ deawait
//@ rename `quinn::StoppedError` => `StoppedError`
//@ ensures r == stopped_spec(old(self).0.id), final(self).0 == old(self).0
//@ end

// finish succeeds ONLY once the peer has acknowledged everything (stopped() == Ok(None)); a
// STOP_SENDING(c) makes it fail with Stopped(c)
//@ extract wtransport/src/driver/streams/mod.rs >> impl QuicSendStream >> fn finish
//@ deawait
//@ expand_matches
//@ ensures
//@ | r is Ok <==> stopped_outcome(old(self).0.id) == Ok::<Option<QVarInt>, StoppedError>(None),
//@ | r matches Err(e) ==> e == stopped_spec(old(self).0.id),
//@ end

// reset(c) puts exactly c on the wire
//@ extract wtransport/src/driver/streams/mod.rs >> impl QuicSendStream >> fn reset
//@ subst `.map_err(|_| ClosedStream)` => `.map_err(|_e: QClosedStream| -> (o: ClosedStream) { ClosedStream })`
//@ ensures
//@ | r is Ok <==> reset_outcome(old(self).0.id) is Ok,
//@ | r is Ok ==> final(self).0.reset_with@ == Some(error_code.v),
//@ end
}

impl QuicRecvStream {
// stop(c) puts exactly c on the wire
//@ extract wtransport/src/driver/streams/mod.rs >> impl QuicRecvStream >> fn stop
//@ subst `.map_err(|_| AlreadyStop)` => `.map_err(|_e: QClosedStream| -> (o: AlreadyStop) { AlreadyStop })`
//@ ensures
//@ | r is Ok <==> stop_outcome(old(self).0.id) is Ok,
//@ | r is Ok ==> final(self).0.stopped_with@ == Some(error_code.v),
//@ end
}

} // verus!

fn main() {}
