// Unit `qpack_roundtrip` (C14): a LEMMA over the contracts of the two verified functions -
//   ref_decode(output of Encoder::encode on the field list h) == Ok(the map obtained by inserting h's
//   fields in order)
// i.e. `Decoder::decode` (proved == ref_decode in unit `qpack_decode`) inverts `Encoder::encode` (proved
// to emit `00 00` + field_lines in unit `qpack_encode`) for ANY number of fields with ANY names and
// values. Pure ghost code over the shared definitions of `_qpack_spec.inc`; the facts about the
// primitives it rests on are axioms, each discharged elsewhere or assumed, and listed:
//   A1 (Kani p_qpack_encode_integer_n*: decode(encode(v) ++ tail) == v with exact consumption, first
//       octet = flags << N | prefix), A2 (string literal codec incl. httlib-huffman: ASSUMED),
//   A3 (Kani p_qpack_static_table_is_rfc9204 + p_qpack_lookup_index_sound: a lookup hit names a row
//       < 99 with that name (and value)).
use vstd::prelude::*;

verus! {

//@ include _qpack_spec.inc

// ---- axioms about the primitives -------------------------------------------------------------------
// A1: prefix integers: decoding an encoding followed by anything returns the value and flags and
// consumes exactly the encoding; the first octet carries the flags above the N-bit prefix
#[verifier::external_body]
proof fn axiom_pint_roundtrip(n: int, flags: u8, value: usize, tail: Seq<u8>)
    requires 1 <= n <= 8, n == 8 ==> flags == 0, n < 8 ==> (flags as int) < pow2_8(8 - n),
    ensures
        enc_int(n, flags, value).len() >= 1,
        pint_result(n, enc_int(n, flags, value) + tail)
            == (PintRes::Val { flags: flags, value: value, len: enc_int(n, flags, value).len() as int }),
        n < 8 ==> (enc_int(n, flags, value)[0] as int) / pow2_8(n) == flags as int,
{
}

spec fn pow2_8(k: int) -> int {
    if k <= 0 { 1 } else if k == 1 { 2 } else if k == 2 { 4 } else if k == 3 { 8 } else if k == 4 { 16 }
    else if k == 5 { 32 } else if k == 6 { 64 } else if k == 7 { 128 } else { 256 }
}

// A2: string literals (length prefix integer, Huffman or plain, UTF-8): ASSUMED inverse
#[verifier::external_body]
proof fn axiom_str_roundtrip(n: int, flags: u8, text: Seq<char>, tail: Seq<u8>)
    requires 1 <= n <= 7, (flags as int) < pow2_8(7 - n),
    ensures
        enc_str(n, flags, text).len() >= 1,
        str_result(n, enc_str(n, flags, text) + tail)
            == (StrRes::Val { text: text, len: enc_str(n, flags, text).len() as int }),
        (enc_str(n, flags, text)[0] as int) / pow2_8(n + 1) == flags as int,
{
}

// A3: a static-table hit names a row of the table with that name (and value)
#[verifier::external_body]
proof fn axiom_lookup_sound(k: Seq<char>, v: Seq<char>)
    ensures
        lookup(k, v) matches Some(LookupIndexFound::KeyValue(i)) ==> i < 99 && static_name(i as int) == k && static_value(i as int) == v,
        lookup(k, v) matches Some(LookupIndexFound::KeyOnly(i)) ==> i < 99 && static_name(i as int) == k,
{
}

// ---- the map a field list denotes ------------------------------------------------------------------
spec fn fold_from(h: Seq<(&str, &str)>, i: int, m: Map<Seq<char>, Seq<char>>) -> Map<Seq<char>, Seq<char>>
    decreases h.len() - i,
{
    if i >= h.len() || i < 0 { m } else { fold_from(h, i + 1, m.insert(h[i].0@, h[i].1@)) }
}

// field lines from position i on (front-to-back form of QpackSpec::field_lines)
spec fn lines_from(h: Seq<(&str, &str)>, i: int) -> Seq<u8>
    decreases h.len() - i,
{
    if i >= h.len() || i < 0 { Seq::<u8>::empty() } else { QpackSpec::field_line(h[i].0@, h[i].1@) + lines_from(h, i + 1) }
}

proof fn lemma_lines_split(h: Seq<(&str, &str)>, i: int)
    requires 0 <= i <= h.len(),
    ensures QpackSpec::field_lines(h, h.len() as int) =~= QpackSpec::field_lines(h, i) + lines_from(h, i),
    decreases h.len() - i,
{
    if i < h.len() {
        lemma_lines_split(h, i + 1);
        assert(QpackSpec::field_lines(h, i + 1) =~= QpackSpec::field_lines(h, i) + QpackSpec::field_line(h[i].0@, h[i].1@));
        assert(lines_from(h, i) =~= QpackSpec::field_line(h[i].0@, h[i].1@) + lines_from(h, i + 1));
    } else {
        assert(lines_from(h, i) =~= Seq::<u8>::empty());
    }
}

// bit facts linking "first octet / 2^k == flags" to the masks the reference grammar tests
proof fn lemma_first_octet_masks(b: u8)
    ensures
        (b as int) / 64 == 3 ==> (b & 0x80 == 0x80) && !(b & 0x40 == 0),
        (b as int) / 16 == 5 ==> !(b & 0x80 == 0x80) && (b & 0xc0 == 0x40) && !(b & 0x10 == 0),
        (b as int) / 16 == 2 ==> !(b & 0x80 == 0x80) && !(b & 0xc0 == 0x40) && (b & 0xe0 == 0x20),
{
    assert((b / 64 == 3) ==> (b & 0x80 == 0x80) && !(b & 0x40 == 0)) by (bit_vector);
    assert((b / 16 == 5) ==> !(b & 0x80 == 0x80) && (b & 0xc0 == 0x40) && !(b & 0x10 == 0)) by (bit_vector);
    assert((b / 16 == 2) ==> !(b & 0x80 == 0x80) && !(b & 0xc0 == 0x40) && (b & 0xe0 == 0x20)) by (bit_vector);
}

// one field line in front of anything decodes to one insertion
proof fn lemma_one_line(k: Seq<char>, v: Seq<char>, rest: Seq<u8>, m: Map<Seq<char>, Seq<char>>)
    ensures ref_lines(QpackSpec::field_line(k, v) + rest, m) == ref_lines(rest, m.insert(k, v)),
{
    axiom_lookup_sound(k, v);
    let line = QpackSpec::field_line(k, v);
    let s = line + rest;
    match lookup(k, v) {
        Some(LookupIndexFound::KeyValue(i)) => {
            axiom_pint_roundtrip(6, 0b11, i, rest);
            let e = enc_int(6, 0b11, i);
            assert(line == e);
            assert(s[0] == e[0]);
            lemma_first_octet_masks(e[0]);
            assert(s.skip(e.len() as int) =~= rest);
        }
        Some(LookupIndexFound::KeyOnly(i)) => {
            let e1 = enc_int(4, 0b0101, i);
            let e2 = enc_str(7, 0, v);
            axiom_pint_roundtrip(4, 0b0101, i, e2 + rest);
            axiom_str_roundtrip(7, 0, v, rest);
            assert(s =~= e1 + (e2 + rest));
            assert(s[0] == e1[0]);
            lemma_first_octet_masks(e1[0]);
            assert(s.skip(e1.len() as int) =~= e2 + rest);
            assert((e2 + rest).skip(e2.len() as int) =~= rest);
        }
        None => {
            let e1 = enc_str(3, 0b10, k);
            let e2 = enc_str(7, 0, v);
            axiom_str_roundtrip(3, 0b10, k, e2 + rest);
            axiom_str_roundtrip(7, 0, v, rest);
            assert(s =~= e1 + (e2 + rest));
            assert(s[0] == e1[0]);
            lemma_first_octet_masks(e1[0]);
            assert(s.skip(e1.len() as int) =~= e2 + rest);
            assert((e2 + rest).skip(e2.len() as int) =~= rest);
        }
    }
}

proof fn lemma_lines_roundtrip(h: Seq<(&str, &str)>, i: int, m: Map<Seq<char>, Seq<char>>)
    requires 0 <= i <= h.len(),
    ensures ref_lines(lines_from(h, i), m) == Ok::<Map<Seq<char>, Seq<char>>, DecodingError>(fold_from(h, i, m)),
    decreases h.len() - i,
{
    if i < h.len() {
        lemma_one_line(h[i].0@, h[i].1@, lines_from(h, i + 1), m);
        lemma_lines_roundtrip(h, i + 1, m.insert(h[i].0@, h[i].1@));
    } else {
        assert(lines_from(h, i) =~= Seq::<u8>::empty());
    }
}

// THEOREM: decoding what the encoder emits for the field list `h` yields exactly h's fields
// (later fields overwriting earlier ones with the same name), for any number of fields
proof fn theorem_decode_inverts_encode(h: Seq<(&str, &str)>)
    ensures
        ref_decode(enc_int(8, 0, 0) + enc_int(7, 0, 0) + QpackSpec::field_lines(h, h.len() as int))
            == Ok::<Map<Seq<char>, Seq<char>>, DecodingError>(fold_from(h, 0, Map::<Seq<char>, Seq<char>>::empty())),
{
    let p1 = enc_int(8, 0, 0);
    let p2 = enc_int(7, 0, 0);
    let body = QpackSpec::field_lines(h, h.len() as int);
    let s = p1 + p2 + body;
    axiom_pint_roundtrip(8, 0, 0, p2 + body);
    axiom_pint_roundtrip(7, 0, 0, body);
    assert(s =~= p1 + (p2 + body));
    assert(s.skip(p1.len() as int) =~= p2 + body);
    assert((p2 + body).skip(p2.len() as int) =~= body);
    lemma_lines_split(h, 0);
    assert(QpackSpec::field_lines(h, 0) =~= Seq::<u8>::empty());
    assert(body =~= lines_from(h, 0));
    lemma_lines_roundtrip(h, 0, Map::<Seq<char>, Seq<char>>::empty());
}

// vacuity probe (canary run only): with every axiom instantiated and the theorem in scope, `false` must
// still be unprovable
//probe h: Seq<(&str, &str)>, k: Seq<char>, v: Seq<char>, rest: Seq<u8> | theorem_decode_inverts_encode(h); axiom_lookup_sound(k, v); axiom_pint_roundtrip(6, 0b11, 5, rest); axiom_pint_roundtrip(4, 0b0101, 5, rest); axiom_str_roundtrip(3, 0b10, k, rest); axiom_str_roundtrip(7, 0, v, rest); axiom_pint_roundtrip(8, 0, 0, rest);

} // verus!

fn main() {}
