// Unit `datagram`: proto `Datagram::{read,write_size,header_size}`, driver `Datagram::header_size`
// and the size arithmetic of `Connection::max_datagram_size` (C03) for datagrams of ANY length and
// any limit the peer may advertise.
use vstd::prelude::*;

verus! {

global size_of usize == 8;

spec const VARINT_MAX: u64 = 0x3fff_ffff_ffff_ffff;
spec const QSTREAM_MAX: u64 = 0x0fff_ffff_ffff_ffff;

spec fn varint_len(v: u64) -> int {
    if v < 0x40 { 1 } else if v < 0x4000 { 2 } else if v < 0x4000_0000 { 4 } else { 8 }
}
spec fn varint_len_from_first(b: u8) -> int {
    if b / 64 == 0 { 1 } else if b / 64 == 1 { 2 } else if b / 64 == 2 { 4 } else { 8 }
}
spec fn varint_complete(s: Seq<u8>) -> bool { s.len() >= 1 && s.len() >= varint_len_from_first(s[0]) }
// abstract RFC 9000 value of the varint at the head of `s` (concrete definition: Kani)
uninterp spec fn varint_val(s: Seq<u8>) -> u64;

struct InvalidQStreamId;
struct InvalidSessionId;
#[derive(Debug)]
struct EndOfBuffer;

//@ extract wtransport-proto/src/varint.rs >> struct VarInt
//@ end
impl VarInt {
    spec fn wf(self) -> bool { self.0 <= VARINT_MAX }
//@ extract wtransport-proto/src/varint.rs >> impl VarInt >> fn into_inner
//@ ensures r == self.0
//@ end
//@ extract wtransport-proto/src/varint.rs >> impl VarInt >> fn from_u64_unchecked
//@ rename `Self::MAX.into_inner()` => `4_611_686_018_427_387_903`
//@ requires value <= VARINT_MAX
//@ ensures r.0 == value, r.wf()
//@ end
//@ extract wtransport-proto/src/varint.rs >> impl VarInt >> fn size
//@ requires self.wf()
//@ ensures r as int == varint_len(self.0), 1 <= r <= 8
//@ end
}

//@ extract wtransport-proto/src/ids.rs >> struct StreamId
//@ end
impl StreamId {
//@ extract wtransport-proto/src/ids.rs >> impl StreamId >> fn into_u64
//@ ensures r == self.0.0
//@ end
}
//@ extract wtransport-proto/src/ids.rs >> struct SessionId
//@ end
impl SessionId {
    spec fn val(self) -> u64 { self.0.0.0 }
    spec fn wf(self) -> bool { self.val() <= VARINT_MAX && self.val() % 4 == 0 }
//@ extract wtransport-proto/src/ids.rs >> impl SessionId >> fn into_u64
//@ ensures r == self.val()
//@ end
}
//@ extract wtransport-proto/src/ids.rs >> struct QStreamId
//@ end
impl QStreamId {
    spec fn val(self) -> u64 { self.0.0 }
    spec fn wf(self) -> bool { self.val() <= QSTREAM_MAX }

//@ extract wtransport-proto/src/ids.rs >> impl QStreamId >> fn from_session_id
//@ rename `Self::MAX.into_u64()` => `1_152_921_504_606_846_975`
//@ prologue proof { let x = session_id.val(); assert(x <= 0x3fff_ffff_ffff_ffff ==> (x >> 2) <= 0x0fff_ffff_ffff_ffff && (x >> 2) == x / 4) by (bit_vector); }
//@ requires session_id.wf()
//@ ensures r.val() == session_id.val() / 4, r.wf()
//@ end

//@ extract wtransport-proto/src/ids.rs >> impl QStreamId >> fn into_varint
//@ ensures r == self.0
//@ end

//@ extract wtransport-proto/src/ids.rs >> impl QStreamId >> fn into_u64
//@ ensures r == self.val()
//@ end

// `varint <= Self::MAX.into_varint()` is a derived `PartialOrd` on the VarInt newtype, which Verus
// has no spec for; the comparison is on the inner integer (R8), as Kani's c_qstreamid_try_from_varint
// shows on the real function for all 2^62 values.
//@ extract wtransport-proto/src/ids.rs >> impl QStreamId >> fn try_from_varint
//@ subst `varint <= Self::MAX.into_varint()` => `varint.into_inner() <= 1_152_921_504_606_846_975`
//@ ensures
//@ | match r { Ok(q) => varint.0 <= QSTREAM_MAX && q.val() == varint.0 && q.wf(), Err(_) => varint.0 > QSTREAM_MAX }
//@ end
}

//@ extract wtransport-proto/src/error.rs >> enum ErrorCode
//@ end

// ---- assumed interface: bytes.rs BufferReader (Kani: p_buffer_reader_get_varint, p_buffer_reader_child)
#[verifier::external_body]
struct BufferReader<'a> {
    b: &'a [u8],
}

impl<'a> BufferReader<'a> {
    uninterp spec fn remaining(&self) -> Seq<u8>;

    #[verifier::external_body]
    fn new(buffer: &'a [u8]) -> (r: Self)
        ensures r.remaining() == buffer@,
    {
        unimplemented!()
    }

    #[verifier::external_body]
    fn get_varint(&mut self) -> (r: Option<VarInt>)
        ensures
            match r {
                Some(v) => varint_complete(old(self).remaining()) && v.0 == varint_val(old(self).remaining()) && v.wf()
                    && final(self).remaining() == old(self).remaining().skip(varint_len_from_first(old(self).remaining()[0])),
                None => !varint_complete(old(self).remaining()) && final(self).remaining() == old(self).remaining(),
            },
    {
        unimplemented!()
    }

    #[verifier::external_body]
    fn buffer_remaining(&mut self) -> (r: &'a [u8])
        ensures r@ == old(self).remaining(), final(self).remaining() == old(self).remaining(),
    {
        unimplemented!()
    }
}

// ---- proto datagram.rs ---------------------------------------------------------------------------
//@ extract wtransport-proto/src/datagram.rs >> struct Datagram
//@ end

impl<'a> Datagram<'a> {
//@ extract wtransport-proto/src/datagram.rs >> impl<'a> Datagram<'a> >> fn read
//@ subst `|InvalidQStreamId| ErrorCode::Datagram` => `|_e: InvalidQStreamId| -> (o: ErrorCode) ensures o == ErrorCode::Datagram { ErrorCode::Datagram }`
//@ ensures
//@ | match r {
//@ |     Ok(d) => varint_complete(quic_datagram@) && varint_val(quic_datagram@) <= QSTREAM_MAX
//@ |         && d.qstream_id.val() == varint_val(quic_datagram@) && d.qstream_id.wf()
//@ |         && d.payload@ == quic_datagram@.skip(varint_len_from_first(quic_datagram@[0])),
//@ |     Err(e) => e == ErrorCode::Datagram && (!varint_complete(quic_datagram@) || varint_val(quic_datagram@) > QSTREAM_MAX),
//@ | }
//@ end

//@ extract wtransport-proto/src/datagram.rs >> impl<'a> Datagram<'a> >> fn header_size
//@ requires qstream_id.wf()
//@ ensures r as int == varint_len(qstream_id.val()), 1 <= r <= 8
//@ end

//@ extract wtransport-proto/src/datagram.rs >> impl<'a> Datagram<'a> >> fn write_size
//@ requires self.qstream_id.wf(), self.payload@.len() <= 0x7fff_ffff_ffff_fff0
//@ ensures r as int == varint_len(self.qstream_id.val()) + self.payload@.len()
//@ end
}

// ---- driver: wtransport/src/datagram.rs header_size, wtransport/src/connection.rs max_datagram_size
// (`H3Datagram` is the driver's alias of the proto `Datagram`)
// bytes::Bytes: assumed external type with a byte-sequence view
#[verifier::external_body]
pub struct Bytes {
    b: Vec<u8>,
}

impl Bytes {
    pub uninterp spec fn view(&self) -> Seq<u8>;

    #[verifier::external_body]
    fn len(&self) -> (r: usize)
        ensures r == self@.len(),
    {
        unimplemented!()
    }
}

// `&quic_dgram` (Deref<Target = [u8]>) and `Bytes::slice(offset..)`: assumed contracts of the crate
#[verifier::external_body]
fn bytes_as_slice(b: &Bytes) -> (r: &[u8])
    ensures r@ == b@,
{
    unimplemented!()
}

// `vec![0; n].into_boxed_slice()`, `&mut Box<[u8]>` as `&mut [u8]`, `Bytes::from(Box<[u8]>)`: assumed
#[verifier::external_body]
fn zeroed_box(n: usize) -> (r: Box<[u8]>) ensures r@.len() == n { vec![0; n].into_boxed_slice() }
#[verifier::external_body]
fn box_as_mut_slice(b: &mut Box<[u8]>) -> (r: &mut [u8])
    ensures r@ == old(b)@, final(b)@ == final(r)@,
{ &mut b[..] }
impl From<Box<[u8]>> for Bytes {
    #[verifier::external_body]
    fn from(b: Box<[u8]>) -> (r: Bytes) ensures r@ == b@ { unimplemented!() }
}
impl From<Vec<u8>> for Bytes {
    #[verifier::external_body]
    fn from(b: Vec<u8>) -> (r: Bytes) ensures r@ == b@ { unimplemented!() }
}

#[verifier::external_body]
fn bytes_slice_from(b: &Bytes, offset: usize) -> (r: Bytes)
    requires offset <= b@.len(),
    ensures r@ == b@.skip(offset as int),
{
    unimplemented!()
}

// the RFC 9297 image of a datagram: varint(quarter stream id) || payload
// RFC 9000 16: the encoding of v; its length is varint_len(v), and one-byte values encode as themselves
uninterp spec fn varint_bytes_long(v: u64) -> Seq<u8>;
spec fn varint_bytes(v: u64) -> Seq<u8> { if v < 64 { seq![v as u8] } else { varint_bytes_long(v) } }
spec fn dgram_image(qid: u64, payload: Seq<u8>) -> Seq<u8> { varint_bytes(qid) + payload }

impl<'a> Datagram<'a> {
//@ extract wtransport-proto/src/datagram.rs >> impl<'a> Datagram<'a> >> fn new
//@ ensures r.qstream_id == qstream_id, r.payload@ == payload@
//@ end

// contract of the proto encoder as proved on the real function by Kani p_datagram_roundtrip_16
// (all-or-nothing, exactly write_size bytes == varint(qid) || payload)
//@ extract wtransport-proto/src/datagram.rs >> impl<'a> Datagram<'a> >> fn write
//@ bodyless
//@ nocanary
//@ attr #[verifier::external_body]
//@ requires self.qstream_id.wf()
//@ ensures
//@ | r is Ok <==> old(buffer)@.len() >= varint_len(self.qstream_id.val()) + self.payload@.len(),
//@ | r matches Ok(n) ==> n == varint_len(self.qstream_id.val()) + self.payload@.len()
//@ |     && final(buffer)@.len() == old(buffer)@.len()
//@ |     && final(buffer)@.subrange(0, n as int) == dgram_image(self.qstream_id.val(), self.payload@),
//@ end

//@ extract wtransport-proto/src/datagram.rs >> impl<'a> Datagram<'a> >> fn qstream_id
//@ ensures r == self.qstream_id
//@ end

//@ extract wtransport-proto/src/datagram.rs >> impl<'a> Datagram<'a> >> fn payload
//@ ensures r@ == self.payload@
//@ end
}

impl StreamId {
//@ extract wtransport-proto/src/ids.rs >> impl StreamId >> fn new
//@ ensures r.0 == varint
//@ end
//@ extract wtransport-proto/src/ids.rs >> impl StreamId >> fn is_bidirectional
//@ prologue proof { let x = self.0.0; assert((x & 0x2 == 0) == (x % 4 == 0 || x % 4 == 1)) by (bit_vector); }
//@ ensures r == (self.0.0 % 4 == 0 || self.0.0 % 4 == 1)
//@ end
//@ extract wtransport-proto/src/ids.rs >> impl StreamId >> fn is_client_initiated
//@ prologue proof { let x = self.0.0; assert((x & 0x1 == 0) == (x % 4 == 0 || x % 4 == 2)) by (bit_vector); }
//@ ensures r == (self.0.0 % 4 == 0 || self.0.0 % 4 == 2)
//@ end
}

impl SessionId {
//@ extract wtransport-proto/src/ids.rs >> impl SessionId >> fn from_session_stream_unchecked
//@ requires stream_id.0.wf(), stream_id.0.0 % 4 == 0
//@ ensures r.0 == stream_id, r.wf()
//@ end
}

impl QStreamId {
//@ extract wtransport-proto/src/ids.rs >> impl QStreamId >> fn into_stream_id
//@ rename `VarInt::MAX.into_inner()` => `4_611_686_018_427_387_903`
//@ prologue proof { let x = self.val(); assert(x <= 0x0fff_ffff_ffff_ffff ==> (x << 2) <= 0x3fff_ffff_ffff_ffff && (x << 2) == x * 4) by (bit_vector); }
//@ requires self.wf()
//@ ensures r.0.0 == 4 * self.val(), r.0.wf()
//@ end

//@ extract wtransport-proto/src/ids.rs >> impl QStreamId >> fn into_session_id
//@ requires self.wf()
//@ ensures r.val() == 4 * self.val(), r.wf()
//@ end
}

// the application-facing datagram of the driver crate (`H3Datagram` is its alias of the proto type)
//@ extract wtransport/src/datagram.rs >> struct Datagram
//@ subst `struct Datagram` => `struct DriverDatagram`
//@ end

impl DriverDatagram {
//@ extract wtransport/src/datagram.rs >> impl Datagram >> fn header_size
//@ rename `H3Datagram::header_size` => `Datagram::header_size`
//@ requires session_id.wf()
//@ ensures r as int == varint_len(session_id.val() / 4), 1 <= r <= 8
//@ end

// C03: what the receiving application gets is exactly the bytes after the quarter-stream-id varint
// of the QUIC datagram (never altered, merged or truncated), attributed to session 4 * qid
//@ extract wtransport/src/datagram.rs >> impl Datagram >> fn read
//@ subst `H3Datagram::read(&quic_dgram)?` => `Datagram::read(bytes_as_slice(&quic_dgram))?`
//@ ensures
//@ | match r {
//@ |     Ok(d) => varint_complete(quic_dgram@) && varint_val(quic_dgram@) <= QSTREAM_MAX
//@ |         && d.quic_dgram@ == quic_dgram@
//@ |         && d.payload_offset == varint_len_from_first(quic_dgram@[0])
//@ |         && d.session_id.val() == 4 * varint_val(quic_dgram@) && d.session_id.wf(),
//@ |     Err(e) => e == ErrorCode::Datagram && (!varint_complete(quic_dgram@) || varint_val(quic_dgram@) > QSTREAM_MAX),
//@ | }
//@ end

// C03 / C16 (send side): what goes on the wire is exactly varint(session id / 4) || payload - the
// application's bytes unaltered behind the session's quarter stream id
//@ extract wtransport/src/datagram.rs >> impl Datagram >> fn write
//@ rename `H3Datagram::new` => `Datagram::new`
//@ resub `vec!\[0; ([^\]]*)\]\.into_boxed_slice\(\)` => `zeroed_box(\1)`
//@ resub `\.write\(&mut buffer\)` => `.write(box_as_mut_slice(&mut buffer))`
//@ requires session_id.wf(), payload@.len() <= 0x7fff_ffff_ffff_fff0
//@ ensures
//@ | r.quic_dgram@ =~= dgram_image(session_id.val() / 4, payload@),
//@ | r.payload_offset == varint_len(session_id.val() / 4),
//@ | r.session_id == session_id,
//@ end

//@ extract wtransport/src/datagram.rs >> impl Datagram >> fn payload
//@ subst `self.quic_dgram.slice(self.payload_offset..)` => `bytes_slice_from(&self.quic_dgram, self.payload_offset)`
//@ requires self.payload_offset <= self.quic_dgram@.len()
//@ ensures r@ == self.quic_dgram@.skip(self.payload_offset as int)
//@ end

//@ extract wtransport/src/datagram.rs >> impl Datagram >> fn session_id
//@ ensures r == self.session_id
//@ end
}

// `Connection::max_datagram_size(&self)` with its two field reads made parameters (R8):
// `self.quic_connection.max_datagram_size()` -> `quic_max` (quinn's current limit for a whole QUIC
// datagram, ANY value the peer's transport parameters can produce), `self.session_id` -> `session_id`.
struct Connection;

impl Connection {
//@ extract wtransport/src/connection.rs >> impl Connection >> fn max_datagram_size
//@ subst `&self` => `quic_max: Option<usize>, session_id: SessionId`
//@ subst `self.quic_connection
//@ |            .max_datagram_size()` => `quic_max`
//@ subst `Datagram::header_size(self.session_id)` => `DriverDatagram::header_size(session_id)`
//@ subst `|quic_max_size| {` => `|quic_max_size: usize| -> (o: Option<usize>)
//@ |                ensures
//@ |                    o matches Some(m) ==> m + varint_len(session_id.val() / 4) == quic_max_size,
//@ |                    o is None ==> quic_max_size < varint_len(session_id.val() / 4),
//@ |            {`
//@ requires session_id.wf()
//@ ensures
//@ | quic_max is None ==> r is None,
//@ | r matches Some(m) ==> quic_max is Some && m + varint_len(session_id.val() / 4) == quic_max->0,
//@ | r is None && quic_max is Some ==> quic_max->0 < varint_len(session_id.val() / 4)
//@ end
}

} // verus!

fn main() {}
