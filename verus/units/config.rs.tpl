// Unit `config`: the configuration builders of wtransport/src/config.rs (C20) - what each builder
// path stores is what was requested (address family, address, port, dual-stack mode, idle timeout,
// keep-alive interval, migration flag), an unrepresentable idle timeout is refused, and `build`
// hands exactly the stored values to the QUIC configuration.
//
// Function bodies are extracted from /repo; std::net, std::time, quinn and rustls types are
// ASSUMED stand-ins (std::net as a concrete model of addresses, quinn/rustls configuration objects
// as records of what their setters were given).
use vstd::prelude::*;
use vstd::std_specs::convert::*;
use std::sync::Arc;

// verif: counter-overflow-undecided
verus! {

pub assume_specification<T, E>[Option::<Result<T, E>>::transpose](o: Option<Result<T, E>>) -> (r: Result<Option<T>, E>)
    ensures
        o is None ==> r == Ok::<Option<T>, E>(None),
        o matches Some(Ok(v)) ==> r == Ok::<Option<T>, E>(Some(v)),
        o matches Some(Err(e)) ==> r == Err::<Option<T>, E>(e);

// ---- assumed: std::net (concrete model) ------------------------------------------------------
#[derive(Clone, Copy)]
struct Ipv4Addr { bits: u32 }
impl Ipv4Addr {
    const LOCALHOST: Ipv4Addr = Ipv4Addr { bits: 0x7f00_0001 };   // 127.0.0.1
    const UNSPECIFIED: Ipv4Addr = Ipv4Addr { bits: 0 };           // 0.0.0.0
}
#[derive(Clone, Copy)]
struct Ipv6Addr { bits: u128 }
impl Ipv6Addr {
    const LOCALHOST: Ipv6Addr = Ipv6Addr { bits: 1 };             // ::1
    const UNSPECIFIED: Ipv6Addr = Ipv6Addr { bits: 0 };           // ::
}
#[derive(Clone, Copy)]
enum IpAddr { V4(Ipv4Addr), V6(Ipv6Addr) }
impl FromSpecImpl<Ipv4Addr> for IpAddr {
    closed spec fn obeys_from_spec() -> bool { true }
    closed spec fn from_spec(v: Ipv4Addr) -> IpAddr { IpAddr::V4(v) }
}
impl From<Ipv4Addr> for IpAddr { fn from(v: Ipv4Addr) -> (r: IpAddr) { IpAddr::V4(v) } }
impl FromSpecImpl<Ipv6Addr> for IpAddr {
    closed spec fn obeys_from_spec() -> bool { true }
    closed spec fn from_spec(v: Ipv6Addr) -> IpAddr { IpAddr::V6(v) }
}
impl From<Ipv6Addr> for IpAddr { fn from(v: Ipv6Addr) -> (r: IpAddr) { IpAddr::V6(v) } }

#[derive(Clone, Copy)]
struct SocketAddrV4 { ip: Ipv4Addr, port: u16 }
#[derive(Clone, Copy)]
struct SocketAddrV6 { ip: Ipv6Addr, port: u16, flowinfo: u32, scope_id: u32 }
impl SocketAddrV6 {
    fn new(ip: Ipv6Addr, port: u16, flowinfo: u32, scope_id: u32) -> (r: SocketAddrV6)
        ensures r == (SocketAddrV6 { ip, port, flowinfo, scope_id })
    { SocketAddrV6 { ip, port, flowinfo, scope_id } }
}
#[derive(Clone, Copy)]
enum SocketAddr { V4(SocketAddrV4), V6(SocketAddrV6) }
impl SocketAddr {
    fn new(ip: IpAddr, port: u16) -> (r: SocketAddr)
        ensures r == (match ip {
            IpAddr::V4(a) => SocketAddr::V4(SocketAddrV4 { ip: a, port }),
            IpAddr::V6(a) => SocketAddr::V6(SocketAddrV6 { ip: a, port, flowinfo: 0, scope_id: 0 }),
        })
    {
        match ip {
            IpAddr::V4(a) => SocketAddr::V4(SocketAddrV4 { ip: a, port }),
            IpAddr::V6(a) => SocketAddr::V6(SocketAddrV6 { ip: a, port, flowinfo: 0, scope_id: 0 }),
        }
    }
}
#[verifier::external_body]
struct UdpSocket { fd: i32 }

// ---- assumed: std::time::Duration ------------------------------------------------------------
#[verifier::external_body]
#[derive(Clone, Copy)]
struct Duration { ms: u128 }
impl Duration {
    uninterp spec fn millis(&self) -> nat;
}

// ---- assumed: quinn --------------------------------------------------------------------------
// IdleTimeout: a QUIC varint of milliseconds (quinn-proto config/transport.rs: TryFrom<Duration>
// is VarInt::try_from(as_millis()), failing from 2^62)
struct VarIntBoundsExceeded;
#[derive(Clone, Copy)]
struct IdleTimeout { ms: u64 }
impl IdleTimeout {
    #[verifier::external_body]
    fn try_from(timeout: Duration) -> (r: Result<IdleTimeout, VarIntBoundsExceeded>)
        ensures
            r is Ok <==> timeout.millis() < 0x4000_0000_0000_0000,
            r matches Ok(i) ==> i.ms == timeout.millis(),
    { unimplemented!() }
}

// TransportConfig: a record of what its setters were last given (quinn's defaults are `dflt_*`)
uninterp spec fn dflt_idle() -> Option<IdleTimeout>;
uninterp spec fn dflt_keep_alive() -> Option<Duration>;
struct TransportConfig { idle: Option<IdleTimeout>, keep_alive: Option<Duration>, rest: u64 }
impl TransportConfig {
    #[verifier::external_body]
    fn default() -> (r: TransportConfig) ensures r.idle == dflt_idle(), r.keep_alive == dflt_keep_alive() { unimplemented!() }
    fn max_idle_timeout(&mut self, value: Option<IdleTimeout>)
        ensures *final(self) == (TransportConfig { idle: value, ..*old(self) })
    { self.idle = value; }
    fn keep_alive_interval(&mut self, value: Option<Duration>)
        ensures *final(self) == (TransportConfig { keep_alive: value, ..*old(self) })
    { self.keep_alive = value; }
}
struct EndpointConfig { e: u64 }
impl EndpointConfig {
    #[verifier::external_body]
    fn default() -> (r: EndpointConfig) ensures r == dflt_endpoint() { unimplemented!() }
}
uninterp spec fn dflt_endpoint() -> EndpointConfig;

// rustls configs: opaque values; whether quinn can use one (it carries TLS13_AES_128_GCM_SHA256)
#[verifier::external_body]
struct TlsServerConfig { x: u8 }
impl TlsServerConfig { uninterp spec fn has_initial_suite(&self) -> bool; }
#[verifier::external_body]
struct TlsClientConfig { x: u8 }
impl TlsClientConfig { uninterp spec fn has_initial_suite(&self) -> bool; }
#[derive(Debug)]
struct NoInitialCipherSuite;

struct QuicServerCrypto { tls: TlsServerConfig }
impl QuicServerCrypto {
    #[verifier::external_body]
    fn try_from(tls: TlsServerConfig) -> (r: Result<QuicServerCrypto, NoInitialCipherSuite>)
        ensures r is Ok <==> tls.has_initial_suite(), r matches Ok(c) ==> c.tls == tls,
    { unimplemented!() }
}
struct QuicClientCrypto { tls: TlsClientConfig }
impl QuicClientCrypto {
    #[verifier::external_body]
    fn try_from(tls: TlsClientConfig) -> (r: Result<QuicClientCrypto, NoInitialCipherSuite>)
        ensures r is Ok <==> tls.has_initial_suite(), r matches Ok(c) ==> c.tls == tls,
    { unimplemented!() }
}

// quinn::ServerConfig / ClientConfig: records of crypto, transport and migration as last set
uninterp spec fn dflt_migration() -> bool;
struct QuicServerConfig { crypto: TlsServerConfig, transport: Option<TransportConfig>, migration: bool }
impl QuicServerConfig {
    #[verifier::external_body]
    fn with_crypto(crypto: Arc<QuicServerCrypto>) -> (r: QuicServerConfig)
        ensures r.crypto == crypto.tls, r.transport is None, r.migration == dflt_migration(),
    { unimplemented!() }
    #[verifier::external_body]
    fn transport_config(&mut self, transport: Arc<TransportConfig>)
        ensures *final(self) == (QuicServerConfig { transport: Some(*transport), ..*old(self) })
    { unimplemented!() }
    #[verifier::external_body]
    fn migration(&mut self, value: bool)
        ensures *final(self) == (QuicServerConfig { migration: value, ..*old(self) })
    { unimplemented!() }
}
struct QuicClientConfig { crypto: TlsClientConfig, transport: Option<TransportConfig> }
impl QuicClientConfig {
    #[verifier::external_body]
    fn new(crypto: Arc<QuicClientCrypto>) -> (r: QuicClientConfig)
        ensures r.crypto == crypto.tls, r.transport is None,
    { unimplemented!() }
    #[verifier::external_body]
    fn transport_config(&mut self, transport: Arc<TransportConfig>)
        ensures *final(self) == (QuicClientConfig { transport: Some(*transport), ..*old(self) })
    { unimplemented!() }
}

// the client's DNS resolver handle (Arc<dyn DnsResolver + Send + Sync>): opaque
#[verifier::external_body]
struct DnsResolverHandle { x: u8 }
impl DnsResolverHandle {
    #[verifier::external_body]
    fn default_tokio() -> DnsResolverHandle { unimplemented!() }
}

// ---- config.rs: data types -------------------------------------------------------------------
//@ extract wtransport/src/config.rs >> enum IpBindConfig
//@ end

//@ extract wtransport/src/config.rs >> enum Ipv6DualStackConfig
//@ end

//@ extract wtransport/src/config.rs >> enum BindAddressConfig
//@ noderive
//@ end

//@ extract wtransport/src/config.rs >> struct InvalidIdleTimeout
//@ end

//@ extract wtransport/src/config.rs >> mod states >> struct WantsBindAddress
//@ end

//@ extract wtransport/src/config.rs >> mod states >> struct WantsIdentity
//@ end

//@ extract wtransport/src/config.rs >> mod states >> struct WantsRootStore
//@ end

//@ extract wtransport/src/config.rs >> mod states >> struct WantsTransportConfigServer
//@ rename `quinn::EndpointConfig` => `EndpointConfig`
//@ rename `quinn::TransportConfig` => `TransportConfig`
//@ end

//@ extract wtransport/src/config.rs >> mod states >> struct WantsTransportConfigClient
//@ rename `quinn::EndpointConfig` => `EndpointConfig`
//@ rename `quinn::TransportConfig` => `TransportConfig`
//@ subst `Arc<dyn DnsResolver + Send + Sync>` => `DnsResolverHandle`
//@ end

//@ extract wtransport/src/config.rs >> struct ServerConfig
//@ rename `quinn::EndpointConfig` => `EndpointConfig`
//@ rename `quinn::ServerConfig` => `QuicServerConfig`
//@ end

//@ extract wtransport/src/config.rs >> struct ClientConfig
//@ rename `quinn::EndpointConfig` => `EndpointConfig`
//@ rename `quinn::ClientConfig` => `QuicClientConfig`
//@ subst `Arc<dyn DnsResolver + Send + Sync>` => `DnsResolverHandle`
//@ end

//@ extract wtransport/src/config.rs >> struct ServerConfigBuilder
//@ end

//@ extract wtransport/src/config.rs >> struct ClientConfigBuilder
//@ end

// ---- reference: what each documented bind option means ---------------------------------------
// (doc comments of IpBindConfig: V4 variants bind IPv4 only, V6 variants IPv6 only (IPV6_V6ONLY),
//  Dual variants IPv6 with dual stack allowed; Local = loopback, InAddrAny = unspecified)
spec fn ref_ip(c: IpBindConfig) -> IpAddr {
    match c {
        IpBindConfig::LocalV4 => IpAddr::V4(Ipv4Addr { bits: 0x7f00_0001 }),
        IpBindConfig::LocalV6 => IpAddr::V6(Ipv6Addr { bits: 1 }),
        IpBindConfig::LocalDual => IpAddr::V6(Ipv6Addr { bits: 1 }),
        IpBindConfig::InAddrAnyV4 => IpAddr::V4(Ipv4Addr { bits: 0 }),
        IpBindConfig::InAddrAnyV6 => IpAddr::V6(Ipv6Addr { bits: 0 }),
        IpBindConfig::InAddrAnyDual => IpAddr::V6(Ipv6Addr { bits: 0 }),
    }
}

spec fn ref_dual(c: IpBindConfig) -> Ipv6DualStackConfig {
    match c {
        IpBindConfig::LocalV4 => Ipv6DualStackConfig::OsDefault,
        IpBindConfig::InAddrAnyV4 => Ipv6DualStackConfig::OsDefault,
        IpBindConfig::LocalV6 => Ipv6DualStackConfig::Deny,
        IpBindConfig::InAddrAnyV6 => Ipv6DualStackConfig::Deny,
        IpBindConfig::LocalDual => Ipv6DualStackConfig::Allow,
        IpBindConfig::InAddrAnyDual => Ipv6DualStackConfig::Allow,
    }
}

spec fn ref_bind(c: IpBindConfig, port: u16) -> BindAddressConfig {
    match ref_ip(c) {
        IpAddr::V4(a) => BindAddressConfig::AddressV4(SocketAddrV4 { ip: a, port }),
        IpAddr::V6(a) => BindAddressConfig::AddressV6(SocketAddrV6 { ip: a, port, flowinfo: 0, scope_id: 0 }, ref_dual(c)),
    }
}

spec fn ref_bind_address(address: SocketAddr) -> BindAddressConfig {
    match address {
        SocketAddr::V4(a) => BindAddressConfig::AddressV4(a),
        SocketAddr::V6(a) => BindAddressConfig::AddressV6(a, Ipv6DualStackConfig::OsDefault),
    }
}

impl IpBindConfig {
//@ extract wtransport/src/config.rs >> impl IpBindConfig >> fn into_ip
//@ ensures r == ref_ip(self)
//@ end

//@ extract wtransport/src/config.rs >> impl IpBindConfig >> fn into_dual_stack_config
//@ ensures r == ref_dual(self)
//@ end
}

impl BindAddressConfig {
//@ extract wtransport/src/config.rs >> impl From<SocketAddr> for BindAddressConfig >> fn from
//@ ensures r == ref_bind_address(value)
//@ end
}

// ---- server builder --------------------------------------------------------------------------
impl ServerConfigBuilder<WantsBindAddress> {
//@ extract wtransport/src/config.rs >> impl ServerConfigBuilder<states::WantsBindAddress> >> fn with_bind_default
//@ rename `states::` => ``
//@ ensures r.0.bind_address_config == ref_bind(IpBindConfig::InAddrAnyDual, listening_port)
//@ end

//@ extract wtransport/src/config.rs >> impl ServerConfigBuilder<states::WantsBindAddress> >> fn with_bind_config
//@ rename `states::` => ``
//@ ensures r.0.bind_address_config == ref_bind(ip_bind_config, listening_port)
//@ end

//@ extract wtransport/src/config.rs >> impl ServerConfigBuilder<states::WantsBindAddress> >> fn with_bind_address
//@ rename `states::` => ``
//@ ensures r.0.bind_address_config == ref_bind_address(address)
//@ end

//@ extract wtransport/src/config.rs >> impl ServerConfigBuilder<states::WantsBindAddress> >> fn with_bind_address_v6
//@ rename `states::` => ``
//@ ensures r.0.bind_address_config == BindAddressConfig::AddressV6(address, dual_stack_config)
//@ end

//@ extract wtransport/src/config.rs >> impl ServerConfigBuilder<states::WantsBindAddress> >> fn with_bind_socket
//@ rename `states::` => ``
//@ ensures r.0.bind_address_config == BindAddressConfig::Socket(socket)
//@ end
}

impl ServerConfigBuilder<WantsIdentity> {
//@ extract wtransport/src/config.rs >> impl ServerConfigBuilder<states::WantsIdentity> >> fn with_custom_tls
//@ rename `states::` => ``
//@ rename `quinn::EndpointConfig` => `EndpointConfig`
//@ rename `quinn::TransportConfig` => `TransportConfig`
//@ ensures
//@ | r.0.bind_address_config == self.0.bind_address_config, r.0.tls_config == tls_config,
//@ | r.0.transport_config.idle == dflt_idle(), r.0.transport_config.keep_alive == dflt_keep_alive(),
//@ end

//@ extract wtransport/src/config.rs >> impl ServerConfigBuilder<states::WantsIdentity> >> fn with_custom_tls_and_transport
//@ rename `states::` => ``
//@ rename `quinn::EndpointConfig` => `EndpointConfig`
//@ rename `QuicTransportConfig` => `TransportConfig`
//@ ensures
//@ | r.0.bind_address_config == self.0.bind_address_config, r.0.tls_config == tls_config,
//@ | r.0.transport_config == quic_transport_config,
//@ end

//@ extract wtransport/src/config.rs >> impl ServerConfigBuilder<states::WantsIdentity> >> fn with
//@ rename `states::` => ``
//@ rename `quinn::EndpointConfig` => `EndpointConfig`
//@ rename `quinn::TransportConfig` => `TransportConfig`
//@ ensures
//@ | r.0.bind_address_config == self.0.bind_address_config, r.0.tls_config == tls_config,
//@ | r.0.endpoint_config == endpoint_config, r.0.transport_config == transport_config,
//@ end
}

impl ServerConfigBuilder<WantsTransportConfigServer> {
//@ extract wtransport/src/config.rs >> impl ServerConfigBuilder<states::WantsTransportConfigServer> >> fn build
//@ rename `quinn::crypto::rustls::QuicServerConfig` => `QuicServerCrypto`
//@ rename `quinn::ServerConfig` => `QuicServerConfig`
//@ requires self.0.tls_config.has_initial_suite()
//@ ensures
//@ | r.bind_address_config == self.0.bind_address_config,
//@ | r.endpoint_config == self.0.endpoint_config,
//@ | r.quic_config.crypto == self.0.tls_config,
//@ | r.quic_config.transport == Some(self.0.transport_config),
//@ | r.quic_config.migration == self.0.migration,
//@ end

//@ extract wtransport/src/config.rs >> impl ServerConfigBuilder<states::WantsTransportConfigServer> >> fn max_idle_timeout
//@ mutself
//@ rename `quinn::IdleTimeout` => `IdleTimeout`
//@ subst `.map_err(|_| InvalidIdleTimeout)?` => `.map_err(|_e: VarIntBoundsExceeded| -> (o: InvalidIdleTimeout) { InvalidIdleTimeout })?`
//@ ensures
//@ | r is Err <==> (idle_timeout matches Some(d) && d.millis() >= 0x4000_0000_0000_0000),
//@ | r matches Ok(b) ==> {
//@ |     &&& b.0.transport_config.idle == (match idle_timeout { Some(d) => Some(IdleTimeout { ms: d.millis() as u64 }), None => None })
//@ |     &&& b.0.transport_config.keep_alive == self.0.transport_config.keep_alive
//@ |     &&& b.0.transport_config.rest == self.0.transport_config.rest
//@ |     &&& b.0.bind_address_config == self.0.bind_address_config && b.0.tls_config == self.0.tls_config
//@ |     &&& b.0.endpoint_config == self.0.endpoint_config && b.0.migration == self.0.migration
//@ | }
//@ end

//@ extract wtransport/src/config.rs >> impl ServerConfigBuilder<states::WantsTransportConfigServer> >> fn keep_alive_interval
//@ mutself
//@ ensures
//@ | r.0.transport_config.keep_alive == interval,
//@ | r.0.transport_config.idle == self.0.transport_config.idle,
//@ | r.0.transport_config.rest == self.0.transport_config.rest,
//@ | r.0.bind_address_config == self.0.bind_address_config && r.0.tls_config == self.0.tls_config,
//@ | r.0.endpoint_config == self.0.endpoint_config && r.0.migration == self.0.migration,
//@ end

//@ extract wtransport/src/config.rs >> impl ServerConfigBuilder<states::WantsTransportConfigServer> >> fn allow_migration
//@ mutself
//@ ensures
//@ | r.0.migration == value,
//@ | r.0.transport_config == self.0.transport_config,
//@ | r.0.bind_address_config == self.0.bind_address_config && r.0.tls_config == self.0.tls_config,
//@ | r.0.endpoint_config == self.0.endpoint_config,
//@ end
}

// ---- client builder --------------------------------------------------------------------------
impl ClientConfigBuilder<WantsBindAddress> {
//@ extract wtransport/src/config.rs >> impl ClientConfigBuilder<states::WantsBindAddress> >> fn with_bind_default
//@ rename `states::` => ``
//@ ensures r.0.bind_address_config == ref_bind(IpBindConfig::InAddrAnyDual, 0)
//@ end

//@ extract wtransport/src/config.rs >> impl ClientConfigBuilder<states::WantsBindAddress> >> fn with_bind_config
//@ rename `states::` => ``
//@ ensures r.0.bind_address_config == ref_bind(ip_bind_config, 0)
//@ end

//@ extract wtransport/src/config.rs >> impl ClientConfigBuilder<states::WantsBindAddress> >> fn with_bind_address
//@ rename `states::` => ``
//@ ensures r.0.bind_address_config == ref_bind_address(address)
//@ end

//@ extract wtransport/src/config.rs >> impl ClientConfigBuilder<states::WantsBindAddress> >> fn with_bind_address_v6
//@ rename `states::` => ``
//@ ensures r.0.bind_address_config == BindAddressConfig::AddressV6(address, dual_stack_config)
//@ end

//@ extract wtransport/src/config.rs >> impl ClientConfigBuilder<states::WantsBindAddress> >> fn with_bind_socket
//@ rename `states::` => ``
//@ ensures r.0.bind_address_config == BindAddressConfig::Socket(socket)
//@ end
}

impl ClientConfigBuilder<WantsRootStore> {
//@ extract wtransport/src/config.rs >> impl ClientConfigBuilder<states::WantsRootStore> >> fn with_custom_tls
//@ rename `states::` => ``
//@ rename `quinn::EndpointConfig` => `EndpointConfig`
//@ rename `quinn::TransportConfig` => `TransportConfig`
//@ ensures
//@ | r.0.bind_address_config == self.0.bind_address_config, r.0.tls_config == tls_config,
//@ | r.0.transport_config.idle == dflt_idle(), r.0.transport_config.keep_alive == dflt_keep_alive(),
//@ end

//@ extract wtransport/src/config.rs >> impl ClientConfigBuilder<states::WantsRootStore> >> fn with
//@ rename `states::` => ``
//@ rename `quinn::EndpointConfig` => `EndpointConfig`
//@ rename `quinn::TransportConfig` => `TransportConfig`
//@ subst `Arc::<TokioDnsResolver>::default()` => `DnsResolverHandle::default_tokio()`
//@ ensures
//@ | r.0.bind_address_config == self.0.bind_address_config, r.0.tls_config == tls_config,
//@ | r.0.endpoint_config == endpoint_config, r.0.transport_config == transport_config,
//@ end
}

impl ClientConfigBuilder<WantsTransportConfigClient> {
//@ extract wtransport/src/config.rs >> impl ClientConfigBuilder<states::WantsTransportConfigClient> >> fn build
//@ rename `quinn::crypto::rustls::QuicClientConfig` => `QuicClientCrypto`
//@ rename `quinn::ClientConfig` => `QuicClientConfig`
//@ requires self.0.tls_config.has_initial_suite()
//@ ensures
//@ | r.bind_address_config == self.0.bind_address_config,
//@ | r.endpoint_config == self.0.endpoint_config,
//@ | r.quic_config.crypto == self.0.tls_config,
//@ | r.quic_config.transport == Some(self.0.transport_config),
//@ | r.dns_resolver == self.0.dns_resolver,
//@ end

//@ extract wtransport/src/config.rs >> impl ClientConfigBuilder<states::WantsTransportConfigClient> >> fn max_idle_timeout
//@ mutself
//@ rename `quinn::IdleTimeout` => `IdleTimeout`
//@ subst `.map_err(|_| InvalidIdleTimeout)?` => `.map_err(|_e: VarIntBoundsExceeded| -> (o: InvalidIdleTimeout) { InvalidIdleTimeout })?`
//@ ensures
//@ | r is Err <==> (idle_timeout matches Some(d) && d.millis() >= 0x4000_0000_0000_0000),
//@ | r matches Ok(b) ==> {
//@ |     &&& b.0.transport_config.idle == (match idle_timeout { Some(d) => Some(IdleTimeout { ms: d.millis() as u64 }), None => None })
//@ |     &&& b.0.transport_config.keep_alive == self.0.transport_config.keep_alive
//@ |     &&& b.0.transport_config.rest == self.0.transport_config.rest
//@ |     &&& b.0.bind_address_config == self.0.bind_address_config && b.0.tls_config == self.0.tls_config
//@ |     &&& b.0.endpoint_config == self.0.endpoint_config && b.0.dns_resolver == self.0.dns_resolver
//@ | }
//@ end

//@ extract wtransport/src/config.rs >> impl ClientConfigBuilder<states::WantsTransportConfigClient> >> fn keep_alive_interval
//@ mutself
//@ ensures
//@ | r.0.transport_config.keep_alive == interval,
//@ | r.0.transport_config.idle == self.0.transport_config.idle,
//@ | r.0.transport_config.rest == self.0.transport_config.rest,
//@ | r.0.bind_address_config == self.0.bind_address_config && r.0.tls_config == self.0.tls_config,
//@ | r.0.endpoint_config == self.0.endpoint_config && r.0.dns_resolver == self.0.dns_resolver,
//@ end
}

// ---- lemma over the contracts: the whole default server path ----------------------------------
// builder().with_bind_config(c, port).with_custom_tls(tls).max_idle_timeout(t)?.keep_alive_interval(k)
//   .allow_migration(m).build() carries c, port, t, k, m to the endpoint's configuration
fn lemma_server_path(c: IpBindConfig, port: u16, tls: TlsServerConfig, t: Option<Duration>, k: Option<Duration>, m: bool) -> (r: Result<ServerConfig, InvalidIdleTimeout>)
    requires tls.has_initial_suite(),
    ensures
        r is Err <==> (t matches Some(d) && d.millis() >= 0x4000_0000_0000_0000),
        r matches Ok(cfg) ==> {
            &&& cfg.bind_address_config == ref_bind(c, port)
            &&& cfg.quic_config.crypto == tls
            &&& cfg.quic_config.migration == m
            &&& cfg.quic_config.transport matches Some(tc) && tc.keep_alive == k
                && tc.idle == (match t { Some(d) => Some(IdleTimeout { ms: d.millis() as u64 }), None => None })
        },
{
    let b = ServerConfigBuilder(WantsBindAddress {});
    let b = b.with_bind_config(c, port);
    let b = b.with_custom_tls(tls);
    let b = match b.max_idle_timeout(t) { Ok(b) => b, Err(e) => { return Err(e); } };
    let b = b.keep_alive_interval(k);
    let b = b.allow_migration(m);
    Ok(b.build())
}

} // verus!

fn main() {}
