// Unit `qpack_decode`: the field-line loop of `Decoder::decode` (C11) for inputs of ANY length:
// terminates (every iteration consumes >= 1 byte or returns), never indexes out of bounds,
// `unreachable!()` in `decode_field_line_type` is unreachable, every path returns a value or a
// DecodingError. Callees are taken by contract: decode_integer (Kani: p_qpack_decode_integer_n*),
// StaticTable::lookup_field (Kani: p_qpack_static_table_is_rfc9204); decode_string and the
// HashMap/String operations are assumed (std / httlib-huffman).
use vstd::prelude::*;

verus! {

global size_of usize == 8;

// ---- assumed interface: bytes.rs BufferReader with a ghost view of the unread bytes ------------
#[verifier::external_body]
struct BufferReader<'a> {
    b: &'a [u8],
}

impl<'a> BufferReader<'a> {
    uninterp spec fn remaining(&self) -> Seq<u8>;

    #[verifier::external_body]
    fn new(buffer: &'a [u8]) -> (r: Self)
        ensures r.remaining() == buffer@,
    {
        unimplemented!()
    }

    // Kani: p_buffer_reader_get_varint / p_buffer_reader_child (capacity == unread bytes)
    #[verifier::external_body]
    fn capacity(&self) -> (r: usize)
        ensures r == self.remaining().len(),
    {
        unimplemented!()
    }

    // Kani: p_readers_get_bytes
    #[verifier::external_body]
    fn get_bytes(&mut self, len: usize) -> (r: Option<&'a [u8]>)
        ensures
            match r {
                Some(b) => len <= old(self).remaining().len() && b@ == old(self).remaining().take(len as int)
                    && final(self).remaining() == old(self).remaining().skip(len as int),
                None => len > old(self).remaining().len() && final(self).remaining() == old(self).remaining(),
            },
    {
        unimplemented!()
    }

    #[verifier::external_body]
    fn buffer_remaining(&mut self) -> (r: &'a [u8])
        ensures r@ == old(self).remaining(), final(self).remaining() == old(self).remaining(),
    {
        unimplemented!()
    }
}

spec fn is_suffix(s: Seq<u8>, of: Seq<u8>) -> bool {
    s.len() <= of.len() && s == of.skip(of.len() - s.len())
}

//@ extract wtransport-proto/src/qpack.rs >> enum DecodingError
//@ end

//@ extract wtransport-proto/src/qpack.rs >> enum FieldLineType
//@ end

// assumed: std HashMap<String,String> (only insertion is used; the decoder never reads it back)
#[verifier::external_body]
struct HeaderMap {
    m: std::collections::HashMap<String, String>,
}

#[verifier::external_body]
fn header_map_new() -> HeaderMap {
    unimplemented!()
}

#[verifier::external_body]
fn header_map_insert_strs(h: &mut HeaderMap, k: &str, v: &str) {
    unimplemented!()
}

#[verifier::external_body]
fn header_map_insert_str_string(h: &mut HeaderMap, k: &str, v: String) {
    unimplemented!()
}

#[verifier::external_body]
fn header_map_insert_strings(h: &mut HeaderMap, k: String, v: String) {
    unimplemented!()
}

// assumed: httlib-huffman decoder, slice::to_vec, String::from_utf8 (total functions on their input)
#[verifier::external_body]
fn huffman_decode(src: &[u8], dst: &mut Vec<u8>) -> (r: Result<(), ()>) {
    unimplemented!()
}

#[verifier::external_body]
fn slice_to_vec(s: &[u8]) -> (r: Vec<u8>)
    ensures r@ == s@,
{
    unimplemented!()
}

#[verifier::external_body]
fn string_from_utf8(v: Vec<u8>) -> (r: Result<String, ()>) {
    unimplemented!()
}

proof fn lemma_suffix_trans(a: Seq<u8>, b: Seq<u8>, c: Seq<u8>)
    requires is_suffix(a, b), is_suffix(b, c),
    ensures is_suffix(a, c),
{
    assert(a =~= c.skip(c.len() - a.len()));
}

proof fn lemma_skip_is_suffix(s: Seq<u8>, n: int)
    requires 0 <= n <= s.len(),
    ensures is_suffix(s.skip(n), s),
{
}

struct StaticTable;

impl StaticTable {
    // Kani: p_qpack_static_table_is_rfc9204 (Some iff index < 99)
    #[verifier::external_body]
    fn lookup_field(index: usize) -> (r: Option<(&'static str, &'static str)>)
        ensures r is Some <==> index < 99,
    {
        unimplemented!()
    }
}

struct Decoder;

impl Decoder {
    // Kani: p_qpack_decode_integer_n{3,4,6,7,8}: a value consumes 1..=11 octets, an error leaves a
    // suffix of the input (the reader only moves forward)
    #[verifier::external_body]
    fn decode_integer<const N: usize>(bytes_reader: &mut BufferReader<'_>) -> (r: Result<(u8, usize), DecodingError>)
        ensures
            is_suffix(final(bytes_reader).remaining(), old(bytes_reader).remaining()),
            r is Ok ==> final(bytes_reader).remaining().len() < old(bytes_reader).remaining().len(),
    {
        unimplemented!()
    }

//@ extract wtransport-proto/src/qpack.rs >> impl Decoder >> fn decode_string
//@ subst `fn decode_string<'a, const N: usize, R>(bytes_reader: &mut R) -> Result<String, DecodingError>
//@ |    where
//@ |        R: BytesReader<'a>,` => `fn decode_string<const N: usize>(bytes_reader: &mut BufferReader<'_>) -> Result<String, DecodingError>`
//@ subst `Self::decode_integer::<N, R>(bytes_reader)?` => `Self::decode_integer::<N>(bytes_reader)?`
//@ substw `httlib_huffman::decode( string_data, &mut string_dec, httlib_huffman::DecoderSpeed::OneBit, ) .map_err(|_| DecodingError::InvalidString)?;` => `huffman_decode(string_data, &mut string_dec).map_err(|_e: ()| -> (o: DecodingError) ensures o == DecodingError::InvalidString { DecodingError::InvalidString })?;`
//@ subst `string_data.to_vec()` => `slice_to_vec(string_data)`
//@ subst `String::from_utf8(string_data).map_err(|_| DecodingError::InvalidString)` => `string_from_utf8(string_data).map_err(|_e: ()| -> (o: DecodingError) ensures o == DecodingError::InvalidString { DecodingError::InvalidString })`
//@ prologue let ghost s0 = bytes_reader.remaining();
//@ insert_after `Self::decode_integer::<N>(bytes_reader)?;` => `let ghost s1 = bytes_reader.remaining();`
//@ insert_after `.ok_or(DecodingError::UnexpectedFin)?;` => `proof { lemma_skip_is_suffix(s1, string_len as int); lemma_suffix_trans(bytes_reader.remaining(), s1, s0); }`
//@ insert_before `let mut string_dec = Vec::with_capacity(string_len);` => `proof { assert(string_len <= s0.len()); } // C11: the decoder never allocates more than the input it was given`
//@ ensures
//@ | is_suffix(final(bytes_reader).remaining(), old(bytes_reader).remaining()),
//@ | r is Ok ==> final(bytes_reader).remaining().len() < old(bytes_reader).remaining().len()
//@ end

//@ extract wtransport-proto/src/qpack.rs >> impl Decoder >> fn decode_field_line_type
//@ prologue proof { assert((byte >> 7 == 1u8) || (byte >> 4 == 1u8) || (byte >> 6 == 1u8) || (byte >> 4 == 0u8) || (byte >> 5 == 1u8)) by (bit_vector); assert((byte >> 7 == 1u8) == (byte & 0x80 == 0x80)) by (bit_vector); assert((byte >> 4 == 1u8) == (byte & 0xf0 == 0x10)) by (bit_vector); assert((byte >> 6 == 1u8) == (byte & 0xc0 == 0x40)) by (bit_vector); assert((byte >> 4 == 0u8) == (byte & 0xf0 == 0x00)) by (bit_vector); assert((byte >> 5 == 1u8) == (byte & 0xe0 == 0x20)) by (bit_vector); }
//@ ensures
//@ | match r {
//@ |     FieldLineType::Indexed => byte & 0x80 == 0x80,
//@ |     FieldLineType::LiteralRefName => byte & 0xc0 == 0x40,
//@ |     FieldLineType::LiteralLitName => byte & 0xe0 == 0x20,
//@ |     FieldLineType::IndexedPost => byte & 0xf0 == 0x10,
//@ |     FieldLineType::LiteralPostRefName => byte & 0xf0 == 0x00,
//@ | }
//@ end

//@ extract wtransport-proto/src/qpack.rs >> impl Decoder >> fn decode
//@ subst `fn decode<D>(data: D) -> Result<HashMap<String, String>, DecodingError>
//@ |    where
//@ |        D: AsRef<[u8]>,` => `fn decode(data: &[u8]) -> Result<HeaderMap, DecodingError>`
//@ subst `BufferReader::new(data.as_ref())` => `BufferReader::new(data)`
//@ subst `Self::decode_integer::<8, _>` => `Self::decode_integer::<8>`
//@ subst `Self::decode_integer::<7, _>` => `Self::decode_integer::<7>`
//@ subst `Self::decode_integer::<6, _>` => `Self::decode_integer::<6>`
//@ subst `Self::decode_integer::<4, _>` => `Self::decode_integer::<4>`
//@ subst `Self::decode_string::<7, _>` => `Self::decode_string::<7>` x2
//@ subst `Self::decode_string::<3, _>` => `Self::decode_string::<3>`
//@ subst `HashMap::new()` => `header_map_new()`
//@ subst `headers.insert(key.to_string(), value.to_string());` => `header_map_insert_strs(&mut headers, key, value);`
//@ subst `headers.insert(key.to_string(), value);` => `header_map_insert_str_string(&mut headers, key, value);`
//@ subst `headers.insert(key, value);` => `header_map_insert_strings(&mut headers, key, value);`
//@ loop 1 invariant true
//@ loop 1 decreases buffer_reader.remaining().len()
//@ ensures true
//@ end
}

// ---- headers.rs `Headers::with_frame`: any decoding failure is QPACK_DECOMPRESSION_FAILED -----------
//@ extract wtransport-proto/src/error.rs >> enum ErrorCode
//@ end

//@ extract wtransport-proto/src/frame.rs >> enum FrameKind
//@ end

//@ extract wtransport-proto/src/varint.rs >> struct VarInt
//@ end

// frame.rs Frame (verified in unit `frame`): only kind() and payload() are used
#[verifier::external_body]
struct Frame<'a> {
    p: &'a [u8],
}

impl<'a> Frame<'a> {
    uninterp spec fn is_headers(&self) -> bool;
    uninterp spec fn payload_view(&self) -> Seq<u8>;

    #[verifier::external_body]
    fn kind(&self) -> (r: FrameKind)
        ensures (r is Headers) == self.is_headers(),
    {
        unimplemented!()
    }

    #[verifier::external_body]
    fn payload(&self) -> (r: &[u8])
        ensures r@ == self.payload_view(),
    {
        unimplemented!()
    }
}

//@ extract wtransport-proto/src/headers.rs >> struct Headers
//@ subst `HashMap<String, String>` => `HeaderMap`
//@ end

impl Headers {
//@ extract wtransport-proto/src/headers.rs >> impl Headers >> fn with_frame
//@ subst `.map_err(|_| ErrorCode::Decompression)?` => `.map_err(|_e: DecodingError| -> (o: ErrorCode) ensures o == ErrorCode::Decompression { ErrorCode::Decompression })?`
//@ requires frame.is_headers()
//@ ensures r matches Err(e) ==> e == ErrorCode::Decompression
//@ end
}

} // verus!

fn main() {}
