// Unit `qpack_decode`: the field-line loop of `Decoder::decode` (C11) for inputs of ANY length:
// terminates (every iteration consumes >= 1 byte or returns), never indexes out of bounds,
// `unreachable!()` in `decode_field_line_type` is unreachable, every path returns a value or a
// DecodingError. Callees are taken by contract: decode_integer (Kani: p_qpack_decode_integer_n*),
// StaticTable::lookup_field (Kani: p_qpack_static_table_is_rfc9204); decode_string and the
// HashMap/String operations are assumed (std / httlib-huffman).
use vstd::prelude::*;

verus! {

global size_of usize == 8;

// ---- assumed interface: bytes.rs BufferReader with a ghost view of the unread bytes ------------
#[verifier::external_body]
struct BufferReader<'a> {
    b: &'a [u8],
}

impl<'a> BufferReader<'a> {
    uninterp spec fn remaining(&self) -> Seq<u8>;

    #[verifier::external_body]
    fn new(buffer: &'a [u8]) -> (r: Self)
        ensures r.remaining() == buffer@,
    {
        unimplemented!()
    }

    // Kani: p_buffer_reader_get_varint / p_buffer_reader_child (capacity == unread bytes)
    #[verifier::external_body]
    fn capacity(&self) -> (r: usize)
        ensures r == self.remaining().len(),
    {
        unimplemented!()
    }

    // Kani: p_readers_get_bytes
    #[verifier::external_body]
    fn get_bytes(&mut self, len: usize) -> (r: Option<&'a [u8]>)
        ensures
            match r {
                Some(b) => len <= old(self).remaining().len() && b@ == old(self).remaining().take(len as int)
                    && final(self).remaining() == old(self).remaining().skip(len as int),
                None => len > old(self).remaining().len() && final(self).remaining() == old(self).remaining(),
            },
    {
        unimplemented!()
    }

    #[verifier::external_body]
    fn buffer_remaining(&mut self) -> (r: &'a [u8])
        ensures r@ == old(self).remaining(), final(self).remaining() == old(self).remaining(),
    {
        unimplemented!()
    }
}

spec fn is_suffix(s: Seq<u8>, of: Seq<u8>) -> bool {
    s.len() <= of.len() && s == of.skip(of.len() - s.len())
}

//@ include _qpack_spec.inc

//@ extract wtransport-proto/src/qpack.rs >> enum FieldLineType
//@ end

// assumed: std HashMap<String,String> (only insertion is used; the decoder never reads it back)
#[verifier::external_body]
struct HeaderMap {
    m: std::collections::HashMap<String, String>,
}

impl HeaderMap {
    uninterp spec fn view(&self) -> Map<Seq<char>, Seq<char>>;
}

#[verifier::external_body]
fn header_map_new() -> (r: HeaderMap)
    ensures r@ == Map::<Seq<char>, Seq<char>>::empty(),
{
    unimplemented!()
}

// HashMap::insert (+ str::to_string): insert or overwrite
#[verifier::external_body]
fn header_map_insert_strs(h: &mut HeaderMap, k: &str, v: &str)
    ensures final(h)@ == old(h)@.insert(k@, v@),
{
    unimplemented!()
}

#[verifier::external_body]
fn header_map_insert_str_string(h: &mut HeaderMap, k: &str, v: String)
    ensures final(h)@ == old(h)@.insert(k@, v@),
{
    unimplemented!()
}

#[verifier::external_body]
fn header_map_insert_strings(h: &mut HeaderMap, k: String, v: String)
    ensures final(h)@ == old(h)@.insert(k@, v@),
{
    unimplemented!()
}

// assumed: httlib-huffman decoder, slice::to_vec, String::from_utf8 (total functions on their input)
#[verifier::external_body]
fn huffman_decode(src: &[u8], dst: &mut Vec<u8>) -> (r: Result<(), ()>) {
    unimplemented!()
}

// C11 allocation bound: every buffer the string decoder reserves is bounded by the number of input
// bytes it was given (`limit` = unread bytes at entry), whatever length the peer announces
#[verifier::external_body]
fn vec_with_capacity_bounded(n: usize, Ghost(limit): Ghost<nat>) -> (r: Vec<u8>)
    requires n <= limit,
    ensures r@.len() == 0,
{
    unimplemented!()
}

#[verifier::external_body]
fn slice_to_vec(s: &[u8]) -> (r: Vec<u8>)
    ensures r@ == s@,
{
    unimplemented!()
}

#[verifier::external_body]
fn string_from_utf8(v: Vec<u8>) -> (r: Result<String, ()>) {
    unimplemented!()
}

proof fn lemma_suffix_trans(a: Seq<u8>, b: Seq<u8>, c: Seq<u8>)
    requires is_suffix(a, b), is_suffix(b, c),
    ensures is_suffix(a, c),
{
    assert(a =~= c.skip(c.len() - a.len()));
}

proof fn lemma_skip_is_suffix(s: Seq<u8>, n: int)
    requires 0 <= n <= s.len(),
    ensures is_suffix(s.skip(n), s),
{
}

struct StaticTable;

impl StaticTable {
// Kani: p_qpack_static_table_is_rfc9204 (Some iff index < 99, the row is RFC 9204 Appendix A's).
// The SIGNATURE is taken from the source, so that a changed index type is seen by the callers.
//@ extract wtransport-proto/src/qpack.rs >> impl StaticTable >> fn lookup_field
//@ attr #[verifier::external_body]
//@ bodyless
//@ ensures
//@ | r is Some <==> index < 99,
//@ | r matches Some(kv) ==> kv.0@ == static_name(index as int) && kv.1@ == static_value(index as int)
//@ nocanary
//@ end
}

struct Decoder;

impl Decoder {
    // Kani: p_qpack_decode_integer_n{3,4,6,7,8}: on EVERY byte string the result is the RFC 7541 §5.1
    // reference (`pint_result`): value + flags + exact consumption (1..=11 octets), UnexpectedFin on
    // truncation, IntegerOverflow beyond usize / 10 continuation octets; the reader only moves forward
    #[verifier::external_body]
    fn decode_integer<const N: usize>(bytes_reader: &mut BufferReader<'_>) -> (r: Result<(u8, usize), DecodingError>)
        ensures
            match pint_result(N as int, old(bytes_reader).remaining()) {
                PintRes::Fin => r matches Err(DecodingError::UnexpectedFin) && is_suffix(final(bytes_reader).remaining(), old(bytes_reader).remaining()),
                PintRes::Overflow => r matches Err(DecodingError::IntegerOverflow) && is_suffix(final(bytes_reader).remaining(), old(bytes_reader).remaining()),
                PintRes::Val { flags, value, len } => r == Ok::<(u8, usize), DecodingError>((flags, value))
                    && 1 <= len <= old(bytes_reader).remaining().len()
                    && final(bytes_reader).remaining() == old(bytes_reader).remaining().skip(len),
            },
    {
        unimplemented!()
    }

    // `decode_string` as seen by `decode`: a deterministic function of (N, unread bytes) - its
    // result is NAMED `str_result` here; what is proved about the real body is the function below
    // (only moves forward, makes progress, allocation bounded by the input). Assumed: purity.
    #[verifier::external_body]
    fn decode_string_fn<const N: usize>(bytes_reader: &mut BufferReader<'_>) -> (r: Result<String, DecodingError>)
        ensures
            match str_result(N as int, old(bytes_reader).remaining()) {
                StrRes::Fail { e } => r matches Err(e2) && e2 == e && is_suffix(final(bytes_reader).remaining(), old(bytes_reader).remaining()),
                StrRes::Val { text, len } => r matches Ok(st) && st@ == text
                    && 1 <= len <= old(bytes_reader).remaining().len()
                    && final(bytes_reader).remaining() == old(bytes_reader).remaining().skip(len),
            },
    {
        unimplemented!()
    }

//@ extract wtransport-proto/src/qpack.rs >> impl Decoder >> fn decode_string
//@ subst `fn decode_string<'a, const N: usize, R>(bytes_reader: &mut R) -> Result<String, DecodingError>
//@ |    where
//@ |        R: BytesReader<'a>,` => `fn decode_string<const N: usize>(bytes_reader: &mut BufferReader<'_>) -> Result<String, DecodingError>`
//@ subst `Self::decode_integer::<N, R>(bytes_reader)?` => `Self::decode_integer::<N>(bytes_reader)?`
//@ resub `httlib_huffman::decode\(\s*(\w+),\s*&mut (\w+),\s*httlib_huffman::DecoderSpeed::OneBit,?\s*\)` => `huffman_decode(\1, &mut \2)`
//@ resub `\.map_err\(\|_\| DecodingError::InvalidString\)` => `.map_err(|_e: ()| -> (o: DecodingError) ensures o == DecodingError::InvalidString { DecodingError::InvalidString })`
//@ resub `(\w+)\.to_vec\(\)` => `slice_to_vec(\1)`
//@ resub `String::from_utf8\((\w+)\)` => `string_from_utf8(\1)`
//@ resub `Vec::with_capacity\(([^)]+)\)` => `vec_with_capacity_bounded(\1, Ghost(s0.len()))`
//@ prologue let ghost s0 = bytes_reader.remaining();
//@ insert_after `Self::decode_integer::<N>(bytes_reader)?;` => `let ghost s1 = bytes_reader.remaining(); proof { if let PintRes::Val { flags, value, len } = pint_result(N as int, s0) { lemma_skip_is_suffix(s0, len); } }`
//@ insert_after `.ok_or(DecodingError::UnexpectedFin)?;` => `proof { if string_len <= s1.len() { lemma_skip_is_suffix(s1, string_len as int); lemma_suffix_trans(bytes_reader.remaining(), s1, s0); } }`
//@ ensures
//@ | is_suffix(final(bytes_reader).remaining(), old(bytes_reader).remaining()),
//@ | r is Ok ==> final(bytes_reader).remaining().len() < old(bytes_reader).remaining().len()
//@ end

//@ extract wtransport-proto/src/qpack.rs >> impl Decoder >> fn decode_field_line_type
//@ prologue proof { assert((byte >> 7 == 1u8) || (byte >> 4 == 1u8) || (byte >> 6 == 1u8) || (byte >> 4 == 0u8) || (byte >> 5 == 1u8)) by (bit_vector); assert((byte >> 7 == 1u8) == (byte & 0x80 == 0x80)) by (bit_vector); assert((byte >> 4 == 1u8) == (byte & 0xf0 == 0x10)) by (bit_vector); assert((byte >> 6 == 1u8) == (byte & 0xc0 == 0x40)) by (bit_vector); assert((byte >> 4 == 0u8) == (byte & 0xf0 == 0x00)) by (bit_vector); assert((byte >> 5 == 1u8) == (byte & 0xe0 == 0x20)) by (bit_vector); }
//@ ensures
//@ | match r {
//@ |     FieldLineType::Indexed => byte & 0x80 == 0x80,
//@ |     FieldLineType::LiteralRefName => byte & 0xc0 == 0x40,
//@ |     FieldLineType::LiteralLitName => byte & 0xe0 == 0x20,
//@ |     FieldLineType::IndexedPost => byte & 0xf0 == 0x10,
//@ |     FieldLineType::LiteralPostRefName => byte & 0xf0 == 0x00,
//@ | }
//@ end

//@ extract wtransport-proto/src/qpack.rs >> impl Decoder >> fn decode
//@ subst `fn decode<D>(data: D) -> Result<HashMap<String, String>, DecodingError>
//@ |    where
//@ |        D: AsRef<[u8]>,` => `fn decode(data: &[u8]) -> Result<HeaderMap, DecodingError>`
//@ subst `BufferReader::new(data.as_ref())` => `BufferReader::new(data)`
//@ resub `Self::decode_integer::<(\d+), _>` => `Self::decode_integer::<\1>`
//@ resub `Self::decode_string::<(\d+), _>` => `Self::decode_string_fn::<\1>`
//@ subst `HashMap::new()` => `header_map_new()`
//@ subst `headers.insert(key.to_string(), value.to_string());` => `header_map_insert_strs(&mut headers, key, value);`
//@ subst `headers.insert(key.to_string(), value);` => `header_map_insert_str_string(&mut headers, key, value);`
//@ subst `headers.insert(key, value);` => `header_map_insert_strings(&mut headers, key, value);`
//@ insert_before `let mut headers` => `let ghost rest0 = buffer_reader.remaining();`
//@ loop 1 invariant ref_decode(data@) == ref_lines(rest0, Map::<Seq<char>, Seq<char>>::empty()), ref_lines(buffer_reader.remaining(), headers@) == ref_lines(rest0, Map::<Seq<char>, Seq<char>>::empty())
//@ loop 1 decreases buffer_reader.remaining().len()
//@ insert_before `match Self::decode_field_line_type(field)` => `proof { let b = field; assert((b & 0b0100_0000 == 0) == (b & 0x40 == 0)) by (bit_vector); assert((b & 0b0001_0000 == 0) == (b & 0x10 == 0)) by (bit_vector); assert(b & 0x80 == 0x80 ==> !(b & 0xc0 == 0x40) && !(b & 0xe0 == 0x20)) by (bit_vector); assert(b & 0xc0 == 0x40 ==> !(b & 0x80 == 0x80) && !(b & 0xe0 == 0x20)) by (bit_vector); assert(b & 0xe0 == 0x20 ==> !(b & 0x80 == 0x80) && !(b & 0xc0 == 0x40)) by (bit_vector); assert(b & 0xf0 == 0x10 ==> !(b & 0x80 == 0x80) && !(b & 0xc0 == 0x40) && !(b & 0xe0 == 0x20)) by (bit_vector); assert(b & 0xf0 == 0x00 ==> !(b & 0x80 == 0x80) && !(b & 0xc0 == 0x40) && !(b & 0xe0 == 0x20)) by (bit_vector); }`
//@ ensures
//@ | match ref_decode(data@) {
//@ |     Ok(m) => r matches Ok(h) && h@ == m,
//@ |     Err(e) => r matches Err(e2) && e2 == e,
//@ | }
//@ end

}

// ---- headers.rs `Headers::with_frame`: any decoding failure is QPACK_DECOMPRESSION_FAILED -----------
//@ extract wtransport-proto/src/error.rs >> enum ErrorCode
//@ end

//@ extract wtransport-proto/src/frame.rs >> enum FrameKind
//@ end

//@ extract wtransport-proto/src/varint.rs >> struct VarInt
//@ end

// frame.rs Frame (verified in unit `frame`): only kind() and payload() are used
#[verifier::external_body]
struct Frame<'a> {
    p: &'a [u8],
}

impl<'a> Frame<'a> {
    uninterp spec fn is_headers(&self) -> bool;
    uninterp spec fn payload_view(&self) -> Seq<u8>;

    #[verifier::external_body]
    fn kind(&self) -> (r: FrameKind)
        ensures (r is Headers) == self.is_headers(),
    {
        unimplemented!()
    }

    #[verifier::external_body]
    fn payload(&self) -> (r: &[u8])
        ensures r@ == self.payload_view(),
    {
        unimplemented!()
    }
}

//@ extract wtransport-proto/src/headers.rs >> struct Headers
//@ subst `HashMap<String, String>` => `HeaderMap`
//@ end

impl Headers {
//@ extract wtransport-proto/src/headers.rs >> impl Headers >> fn with_frame
//@ subst `.map_err(|_| ErrorCode::Decompression)?` => `.map_err(|_e: DecodingError| -> (o: ErrorCode) ensures o == ErrorCode::Decompression { ErrorCode::Decompression })?`
//@ requires frame.is_headers()
//@ ensures r matches Err(e) ==> e == ErrorCode::Decompression
//@ end
}

} // verus!

fn main() {}
