#![feature(allocator_api)]
// Unit `driver_streams`: the run loops of the session (CONNECT) stream and of the peer's control
// stream, wtransport/src/driver/streams/{connect,settings}.rs (C04 session termination, C12 SETTINGS
// rules on the control stream, C13 skipped frames / unknown capsules).
//
// `async fn` bodies are extracted by R9 (sequential composition of the awaits). A stream is an
// ASSUMED stand-in that delivers an unknown infinite sequence of read results `feed(i)` in order -
// so the contracts quantify over EVERY sequence of frames / I/O outcomes the peer can cause. What
// the proto layer makes of a frame (`Capsule::with_frame`, `CloseWebTransportSession::with_capsule`,
// `Settings::with_frame`) is an uninterpreted observation here; those functions are under contract
// in units capsule / settings.
use vstd::prelude::*;

// verif: counter-overflow-undecided
verus! {

// assumed std contracts (vstd has none)
pub assume_specification<T: Clone>[<[T]>::to_vec](s: &[T]) -> (r: Vec<T>)
    ensures r@.len() == s@.len(), forall|i: int| 0 <= i < s@.len() ==> cloned::<T>(s@[i], #[trigger] r@[i]);

pub assume_specification<T, A: core::alloc::Allocator>[Vec::<T, A>::into_boxed_slice](v: Vec<T, A>) -> (r: Box<[T], A>)
    ensures r@ == v@;

// never returns (std::future::pending().await)
#[verifier::external_body]
fn pending<T>() -> (r: T) ensures false { loop {} }

// ---- assumed: proto values ---------------------------------------------------------------------
#[derive(Clone, Copy)]
struct VarInt { v: u64 }
impl VarInt {
    fn from_u32(value: u32) -> (r: VarInt) ensures r.v == value as u64 { VarInt { v: value as u64 } }
}

//@ extract wtransport-proto/src/error.rs >> enum ErrorCode
//@ end
//@ extract wtransport-proto/src/frame.rs >> enum FrameKind
//@ end
//@ extract wtransport-proto/src/capsule/mod.rs >> enum CapsuleKind
//@ end
//@ extract wtransport-proto/src/bytes.rs >> mod r#async >> enum IoReadError
//@ end

impl ErrorCode {
    uninterp spec fn code_spec(self) -> u64;
    // registry value: proved on the real crate by Kani c_error_code_to_code
    #[verifier::external_body]
    fn to_code(self) -> (r: VarInt) ensures r.v == self.code_spec() { unimplemented!() }
}

#[verifier::external_body]
struct Frame { x: u8 }
impl Frame {
    uninterp spec fn kind_spec(&self) -> FrameKind;
    #[verifier::external_body]
    fn kind(&self) -> (r: FrameKind) ensures r == self.kind_spec() { unimplemented!() }
    #[verifier::external_body]
    fn payload(&self) -> (r: &[u8]) { unimplemented!() }
}

// Capsule::with_frame / kind / CloseWebTransportSession::with_capsule: observations of the frame
struct Capsule { k: CapsuleKind, of: Ghost<Frame> }
uninterp spec fn capsule_of(frame: Frame) -> Option<Capsule>;
impl Capsule {
    #[verifier::external_body]
    fn with_frame(frame: &Frame) -> (r: Option<Capsule>) ensures r == capsule_of(*frame) { unimplemented!() }
    fn kind(&self) -> (r: CapsuleKind) ensures r == self.k { self.k }
}
struct Reason { b: Vec<u8> }
impl Reason {
    fn as_bytes(&self) -> (r: &[u8]) ensures r@ == self.b@ { self.b.as_slice() }
}
struct CloseWebTransportSession { code: VarInt, reason: Reason }
uninterp spec fn close_of(capsule: Capsule) -> Result<CloseWebTransportSession, ErrorCode>;
impl CloseWebTransportSession {
    #[verifier::external_body]
    fn with_capsule(capsule: &Capsule) -> (r: Result<CloseWebTransportSession, ErrorCode>) ensures r == close_of(*capsule) { unimplemented!() }
    fn error_code(&self) -> (r: VarInt) ensures r == self.code { self.code }
    fn reason(&self) -> (r: &Reason) ensures *r == self.reason { &self.reason }
}

#[verifier::external_body]
struct Settings { x: u8 }
uninterp spec fn settings_of(frame: Frame) -> Result<Settings, ErrorCode>;
impl Settings {
    #[verifier::external_body]
    fn with_frame(frame: &Frame) -> (r: Result<Settings, ErrorCode>) ensures r == settings_of(*frame) { unimplemented!() }
}

// driver/streams/mod.rs: `type ProtoReadError = wtransport_proto::stream::IoReadError`
//@ extract wtransport-proto/src/stream.rs >> enum IoReadError
//@ subst `enum IoReadError` => `enum ProtoReadError`
//@ rename `bytes::IoReadError` => `IoReadError`
//@ end

// ---- error.rs / driver ------------------------------------------------------------------------------
struct ApplicationClose { code: VarInt, reason: Vec<u8> }
impl ApplicationClose {
    #[verifier::external_body]
    fn new(code: VarInt, reason: Box<[u8]>) -> (r: ApplicationClose) ensures r.code == code, r.reason@ == reason@ { unimplemented!() }
}
#[verifier::external_body]
fn empty_boxed_slice() -> (r: Box<[u8]>) ensures r@.len() == 0 { Box::new([]) }

//@ extract wtransport/src/driver/mod.rs >> enum DriverError
//@ noderive
//@ end

// ---- assumed: the session stream as a source of read results ---------------------------------------
uninterp spec fn session_feed(i: nat) -> Result<Frame, ProtoReadError>;
struct StreamSession { pos: Ghost<nat> }
impl StreamSession {
    #[verifier::external_body]
    fn read_frame(&mut self) -> (r: Result<Frame, ProtoReadError>)
        ensures r == session_feed(old(self).pos@), final(self).pos@ == old(self).pos@ + 1,
    { unimplemented!() }
    // MONITOR: the session stream is only reset after a close capsule, with H3_NO_ERROR
    #[verifier::external_body]
    fn reset(self, error_code: VarInt)
        requires error_code.v == ErrorCode::NoError.code_spec(),
    { unimplemented!() }
}
// `self.stream.take().unwrap()` while `stream` (from `self.stream.as_mut()`) was Some: assumed
// non-empty (Verus cannot name the lender during the loop)
#[verifier::external_body]
fn take_session(slot: &mut Option<StreamSession>) -> (r: StreamSession) ensures *final(slot) is None { slot.take().unwrap() }

//@ extract wtransport/src/driver/streams/connect.rs >> struct ConnectStream
//@ end

// WebTransport draft 4.6 / RFC 9297: what one read result on the session stream means
spec fn is_close_capsule(frame: Frame) -> bool {
    frame.kind_spec() == FrameKind::Data && (capsule_of(frame) matches Some(c) && c.k == CapsuleKind::CloseWebTransportSession)
}
// skipped without effect: non-DATA frames, DATA frames holding no or an unknown capsule
spec fn connect_skips(res: Result<Frame, ProtoReadError>) -> bool {
    res matches Ok(frame) && !is_close_capsule(frame)
}
spec fn connect_outcome(res: Result<Frame, ProtoReadError>, r: DriverError) -> bool {
    match res {
        Ok(frame) => match close_of(capsule_of(frame).unwrap()) {
            // the peer's exact code and reason bytes
            Ok(c) => r matches DriverError::ApplicationClosed(a) && a.code == c.code && a.reason@ =~= c.reason.b@,
            // malformed capsule: protocol failure, never an application close
            Err(e) => r == DriverError::Proto(e),
        },
        Err(ProtoReadError::H3(e)) => r == DriverError::Proto(e),
        // clean finish == CLOSE_WEBTRANSPORT_SESSION(0, "")
        Err(ProtoReadError::IO(IoReadError::ImmediateFin)) => r matches DriverError::ApplicationClosed(a) && a.code.v == 0 && a.reason@.len() == 0,
        // abrupt termination: protocol failure
        Err(ProtoReadError::IO(IoReadError::UnexpectedFin)) => r == DriverError::Proto(ErrorCode::ClosedCriticalStream),
        Err(ProtoReadError::IO(IoReadError::Reset)) => r == DriverError::Proto(ErrorCode::ClosedCriticalStream),
        Err(ProtoReadError::IO(IoReadError::NotConnected)) => r == DriverError::NotConnected,
    }
}

// the run loop skipped feed[start..n) and ended on feed[n]
spec fn connect_trace(start: nat, n: nat, r: DriverError) -> bool {
    &&& n >= start
    &&& forall|k: nat| start <= k < n ==> connect_skips(#[trigger] session_feed(k))
    &&& !connect_skips(session_feed(n))
    &&& connect_outcome(session_feed(n), r)
}

impl ConnectStream {
//@ extract wtransport/src/driver/streams/connect.rs >> impl ConnectStream >> fn run
//@ deawait
//@ droplog
//@ expand_matches
//@ attr #[verifier::exec_allows_no_decreases_clause]
//@ rename `capsule::CapsuleKind` => `CapsuleKind`
//@ rename `capsules::CloseWebTransportSession` => `CloseWebTransportSession`
//@ substw `self.stream .take() .unwrap()` => `take_session(&mut self.stream)`
//@ resub `Box::new\(\[\]\)` => `empty_boxed_slice()`
//@ requires old(self).stream is Some
//@ prologue let ghost start: nat = self.stream.unwrap().pos@;
//@ loop 1 invariant old(self).stream is Some, start == old(self).stream.unwrap().pos@, stream.pos@ >= start, forall|k: nat| start <= k < stream.pos@ ==> connect_skips(#[trigger] session_feed(k))
//@ ensures
//@ | exists|n: nat| #![trigger session_feed(n)] connect_trace(old(self).stream.unwrap().pos@, n, r),
//@ end
}

// ---- the peer's control stream (RFC 9114 6.2.1, 7.2.4) -------------------------------------------------
uninterp spec fn ctrl_feed(i: nat) -> Result<Frame, ProtoReadError>;
struct StreamUniRemoteH3 { pos: Ghost<nat> }
impl StreamUniRemoteH3 {
    #[verifier::external_body]
    fn read_frame(&mut self) -> (r: Result<Frame, ProtoReadError>)
        ensures r == ctrl_feed(old(self).pos@), final(self).pos@ == old(self).pos@ + 1,
    { unimplemented!() }
}
// tokio::sync::watch::Sender<Option<Settings>>: the last value sent (tokio's `send_replace` takes
// `&self`; the run loop owns `&mut self`, so the stand-in uses `&mut self` to carry the value)
struct WatchSender { value: Option<Settings> }
impl WatchSender {
    fn borrow(&self) -> (r: &Option<Settings>) ensures *r == self.value { &self.value }
    #[verifier::external_body]
    fn send_replace(&mut self, value: Option<Settings>) -> (r: Option<Settings>)
        ensures final(self).value == value, r == old(self).value,
    { unimplemented!() }
}

//@ extract wtransport/src/driver/streams/settings.rs >> struct RemoteSettingsStream
//@ rename `watch::Sender<Option<Settings>>` => `WatchSender`
//@ end

// what one read on the control stream becomes
spec fn ctrl_read(res: Result<Frame, ProtoReadError>) -> Result<Frame, DriverError> {
    match res {
        Ok(frame) => Ok(frame),
        Err(ProtoReadError::H3(e)) => Err(DriverError::Proto(e)),
        // the control stream must never end: any end is H3_CLOSED_CRITICAL_STREAM
        Err(ProtoReadError::IO(IoReadError::ImmediateFin)) => Err(DriverError::Proto(ErrorCode::ClosedCriticalStream)),
        Err(ProtoReadError::IO(IoReadError::UnexpectedFin)) => Err(DriverError::Proto(ErrorCode::ClosedCriticalStream)),
        Err(ProtoReadError::IO(IoReadError::Reset)) => Err(DriverError::Proto(ErrorCode::ClosedCriticalStream)),
        Err(ProtoReadError::IO(IoReadError::NotConnected)) => Err(DriverError::NotConnected),
    }
}

// with `have` = SETTINGS already received: is this read accepted (loop goes on)?
spec fn ctrl_accepts(have: bool, res: Result<Frame, ProtoReadError>) -> bool {
    res matches Ok(frame) && (if !have { frame.kind_spec() == FrameKind::Settings && settings_of(frame) is Ok }
                               else { frame.kind_spec() is Exercise })
}
// ... or the connection error it ends with
spec fn ctrl_outcome(have: bool, res: Result<Frame, ProtoReadError>, r: DriverError) -> bool {
    match ctrl_read(res) {
        Err(e) => r == e,
        Ok(frame) =>
            if !have {
                // the first frame must be SETTINGS (H3_MISSING_SETTINGS), and well-formed
                if frame.kind_spec() != FrameKind::Settings { r == DriverError::Proto(ErrorCode::MissingSettings) }
                else { settings_of(frame) matches Err(e) && r == DriverError::Proto(e) }
            } else {
                // afterwards only reserved frame types are tolerated (a second SETTINGS, DATA, HEADERS,
                // ...: H3_FRAME_UNEXPECTED)
                !(frame.kind_spec() is Exercise) && r == DriverError::Proto(ErrorCode::FrameUnexpected)
            },
    }
}
spec fn ctrl_trace(had: bool, start: nat, n: nat, r: DriverError) -> bool {
    &&& n >= start
    &&& forall|k: nat| start <= k < n ==> ctrl_accepts(had || k > start, #[trigger] ctrl_feed(k))
    &&& !ctrl_accepts(had || n > start, ctrl_feed(n))
    &&& ctrl_outcome(had || n > start, ctrl_feed(n), r)
}

impl RemoteSettingsStream {
//@ extract wtransport/src/driver/streams/settings.rs >> impl RemoteSettingsStream >> fn read_frame
//@ deawait
//@ rename `bytes::IoReadError` => `IoReadError`
//@ rename `Frame<'a>` => `Frame`
//@ subst `read_frame<'a>` => `read_frame`
//@ requires old(self).stream is Some
//@ ensures
//@ | final(self).stream is Some && final(self).stream.unwrap().pos@ == old(self).stream.unwrap().pos@ + 1,
//@ | final(self).settings == old(self).settings,
//@ | r == ctrl_read(ctrl_feed(old(self).stream.unwrap().pos@)),
//@ end

//@ extract wtransport/src/driver/streams/settings.rs >> impl RemoteSettingsStream >> fn run
//@ deawait
//@ expand_matches
//@ attr #[verifier::exec_allows_no_decreases_clause]
//@ requires old(self).stream is Some
//@ prologue let ghost start: nat = self.stream.unwrap().pos@; let ghost had: bool = self.settings.value is Some;
//@ loop 1 invariant old(self).stream is Some, start == old(self).stream.unwrap().pos@, had == (old(self).settings.value is Some)
//@ loop 1 invariant self.stream is Some, self.stream.unwrap().pos@ >= start
//@ loop 1 invariant (self.settings.value is Some) == (had || self.stream.unwrap().pos@ > start)
//@ loop 1 invariant forall|k: nat| start <= k < self.stream.unwrap().pos@ ==> ctrl_accepts(had || k > start, #[trigger] ctrl_feed(k))
//@ loop 1 invariant !had && self.stream.unwrap().pos@ > start ==> Ok::<Settings, ErrorCode>(self.settings.value.unwrap()) == settings_of(ctrl_feed(start)->Ok_0)
//@ ensures
//@ | exists|n: nat| #![trigger ctrl_feed(n)] ctrl_trace(old(self).settings.value is Some, old(self).stream.unwrap().pos@, n, r)
//@ |     && (old(self).settings.value is None && n > old(self).stream.unwrap().pos@ ==>
//@ |           Ok::<Settings, ErrorCode>(final(self).settings.value.unwrap()) == settings_of(ctrl_feed(old(self).stream.unwrap().pos@)->Ok_0)),
//@ end
}

// ---- our control stream and the peer's QPACK streams: they must never close (RFC 9114 6.2.1) -------------
//@ extract wtransport/src/error.rs >> enum StreamWriteError
//@ noderive
//@ end
//@ extract wtransport/src/error.rs >> enum StreamReadError
//@ noderive
//@ end
//@ extract wtransport/src/error.rs >> enum StreamReadExactError
//@ noderive
//@ end
//@ extract wtransport-proto/src/bytes.rs >> mod r#async >> enum IoWriteError
//@ subst `enum IoWriteError` => `enum ProtoWriteError`
//@ end

uninterp spec fn local_stopped_outcome() -> StreamWriteError;
uninterp spec fn local_write_outcome() -> Result<(), ProtoWriteError>;
struct StreamUniLocalH3 { x: u8 }
impl StreamUniLocalH3 {
    #[verifier::external_body]
    fn stopped(&mut self) -> (r: StreamWriteError) ensures r == local_stopped_outcome() { unimplemented!() }
    #[verifier::external_body]
    fn write_frame(&mut self, frame: Frame) -> (r: Result<(), ProtoWriteError>) ensures r == local_write_outcome() { unimplemented!() }
}
impl Settings {
    #[verifier::external_body]
    fn generate_frame(&self) -> Frame { unimplemented!() }
}

//@ extract wtransport/src/driver/streams/settings.rs >> struct LocalSettingsStream
//@ end

impl LocalSettingsStream {
//@ extract wtransport/src/driver/streams/settings.rs >> impl LocalSettingsStream >> fn send_settings
//@ deawait
//@ requires old(self).stream is Some
//@ ensures
//@ | match local_write_outcome() {
//@ |     Ok(()) => r is Ok,
//@ |     Err(ProtoWriteError::NotConnected) => r == Err::<(), DriverError>(DriverError::NotConnected),
//@ |     Err(ProtoWriteError::Stopped) => r == Err::<(), DriverError>(DriverError::Proto(ErrorCode::ClosedCriticalStream)),
//@ | }
//@ end

// a local control stream the peer stops / that closes is H3_CLOSED_CRITICAL_STREAM
//@ extract wtransport/src/driver/streams/settings.rs >> impl LocalSettingsStream >> fn run
//@ deawait
//@ requires old(self).stream is Some
//@ ensures
//@ | match local_stopped_outcome() {
//@ |     StreamWriteError::NotConnected => r == DriverError::NotConnected,
//@ |     _ => r == DriverError::Proto(ErrorCode::ClosedCriticalStream),
//@ | }
//@ end
}

// the peer's QPACK encoder / decoder streams: content is ignored (zero-capacity table), every
// kind of end is H3_CLOSED_CRITICAL_STREAM
uninterp spec fn qpack_feed(i: nat) -> Result<(), StreamReadExactError>;
struct RawRecv { pos: Ghost<nat> }
impl RawRecv {
    #[verifier::external_body]
    fn read_exact(&mut self, buf: &mut [u8]) -> (r: Result<(), StreamReadExactError>)
        ensures r == qpack_feed(old(self).pos@), final(self).pos@ == old(self).pos@ + 1,
    { unimplemented!() }
}
struct QpackUniStream { raw: RawRecv }
impl QpackUniStream {
    #[verifier::external_body]
    fn stream_mut(&mut self) -> (r: &mut RawRecv)
        ensures *r == old(self).raw, final(self).raw == *final(r),
    { unimplemented!() }
}
spec fn qpack_outcome(res: Result<(), StreamReadExactError>, r: DriverError) -> bool {
    match res {
        Ok(()) => false,
        Err(StreamReadExactError::Read(StreamReadError::NotConnected)) => r == DriverError::NotConnected,
        Err(_) => r == DriverError::Proto(ErrorCode::ClosedCriticalStream),
    }
}
spec fn qpack_trace(start: nat, n: nat, r: DriverError) -> bool {
    &&& n >= start
    &&& forall|k: nat| start <= k < n ==> (#[trigger] qpack_feed(k)) is Ok
    &&& qpack_outcome(qpack_feed(n), r)
}

//@ extract wtransport/src/driver/streams/qpack.rs >> struct RemoteQPackEncStream
//@ rename `StreamUniRemoteH3` => `QpackUniStream`
//@ end
//@ extract wtransport/src/driver/streams/qpack.rs >> struct RemoteQPackDecStream
//@ rename `StreamUniRemoteH3` => `QpackUniStream`
//@ end

impl RemoteQPackEncStream {
//@ extract wtransport/src/driver/streams/qpack.rs >> impl RemoteQPackEncStream >> fn run
//@ deawait
//@ attr #[verifier::exec_allows_no_decreases_clause]
//@ requires old(self).stream is Some
//@ prologue let ghost start: nat = self.stream.unwrap().raw.pos@;
//@ loop 1 invariant old(self).stream is Some, start == old(self).stream.unwrap().raw.pos@, stream.raw.pos@ >= start, forall|k: nat| start <= k < stream.raw.pos@ ==> (#[trigger] qpack_feed(k)) is Ok
//@ ensures exists|n: nat| #![trigger qpack_feed(n)] qpack_trace(old(self).stream.unwrap().raw.pos@, n, r)
//@ end
}
impl RemoteQPackDecStream {
//@ extract wtransport/src/driver/streams/qpack.rs >> impl RemoteQPackDecStream >> fn run
//@ deawait
//@ attr #[verifier::exec_allows_no_decreases_clause]
//@ requires old(self).stream is Some
//@ prologue let ghost start: nat = self.stream.unwrap().raw.pos@;
//@ loop 1 invariant old(self).stream is Some, start == old(self).stream.unwrap().raw.pos@, stream.raw.pos@ >= start, forall|k: nat| start <= k < stream.raw.pos@ ==> (#[trigger] qpack_feed(k)) is Ok
//@ ensures exists|n: nat| #![trigger qpack_feed(n)] qpack_trace(old(self).stream.unwrap().raw.pos@, n, r)
//@ end
}

} // verus!

fn main() {}
