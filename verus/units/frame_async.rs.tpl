// Unit `frame_async`: the ASYNC copies of the decoding logic - `Frame::read_async` and the four
// `read_frame_async` loops of stream.rs (C15, C12, C13) - verified as the sequential composition of
// their awaits (rewrite R9: `async fn` -> `fn`, `.await` dropped): every `.await` on a leaf future
// is a call that returns the future's OUTPUT, under the contract the Kani one-step inductive poll
// harnesses establish for the completed future (p_get_varint_poll_step, p_get_buffer_poll_step:
// value iff the bytes arrive, `ImmediateFin` iff the stream ends before the first byte,
// `UnexpectedFin` iff it ends after >= 1 byte, never over-reads). The source is a healthy stream
// (delivers `remaining()` then FIN); Reset / NotConnected pass-through is not modelled here.
use vstd::prelude::*;
use std::borrow::Cow;

verus! {

//@ include _frame_common.inc

//@ include _async_common.inc

// assumed std: `vec![0; n]`, `Vec::shrink_to_fit`, `Cow::Owned`
// (the precondition is the allocation bound of C11: the buffer allocated for a payload announced
// by the peer never exceeds the 4096-byte parse limit)
#[verifier::external_body]
fn vec_zeroed(n: usize) -> (r: Vec<u8>)
    requires n <= 4096,
    ensures r@.len() == n,
{
    vec![0; n]
}

#[verifier::external_body]
fn vec_shrink_to_fit(v: &mut Vec<u8>)
    ensures final(v)@ == old(v)@,
{
    v.shrink_to_fit()
}

#[verifier::external_body]
fn cow_owned<'a>(v: Vec<u8>) -> (r: Cow<'a, [u8]>)
    ensures r@ == v@,
{
    Cow::Owned(v)
}

// ---- frame.rs (async) ------------------------------------------------------------------------
//@ extract wtransport-proto/src/frame.rs >> enum IoReadError
//@ subst `IO(bytes::IoReadError)` => `IO(BytesIoReadError)`
//@ end

// `?` on a `bytes::IoReadError` converts with this impl (extracted as a plain function; the `?`
// sites are rewritten to call it explicitly, R8)
//@ extract wtransport-proto/src/frame.rs >> impl From<bytes::IoReadError> for IoReadError >> fn from
//@ subst `fn from(io_error: bytes::IoReadError) -> Self` => `fn io_read_error_from(io_error: BytesIoReadError) -> IoReadError`
//@ ensures r == IoReadError::IO(io_error)
//@ end

// what `Frame::read_async` must return on a healthy source holding `input` followed by FIN
spec fn read_async_post(input: Seq<u8>, rest: Seq<u8>, r: Result<Frame<'_>, IoReadError>) -> bool {
    match ref_frame(input) {
        RefFrame::NeedMore => r matches Err(IoReadError::IO(e))
            && e == (if input.len() == 0 { BytesIoReadError::ImmediateFin } else { BytesIoReadError::UnexpectedFin }),
        RefFrame::Unknown { consumed } => r matches Err(IoReadError::Parse(ParseError::UnknownFrame)) && rest == input.skip(consumed),
        RefFrame::InvalidSessionId => r matches Err(IoReadError::Parse(ParseError::InvalidSessionId)),
        RefFrame::TooBig => r matches Err(IoReadError::Parse(ParseError::PayloadTooBig)),
        RefFrame::Frame { kind, session, payload, consumed } => r matches Ok(f) && f.matches_ref(ref_frame(input)) && rest == input.skip(consumed),
    }
}

impl<'a> Frame<'a> {
//@ extract wtransport-proto/src/frame.rs >> impl<'a> Frame<'a> >> fn read_async
//@ subst `async fn` => `fn`
//@ subst `R: AsyncRead + Unpin + ?Sized,` => `R: AsyncReader,`
//@ subst `use crate::bytes::BytesReaderAsync;` => ``
//@ rename `bytes::IoReadError` => `BytesIoReadError`
//@ resub `\|e\|\s*match e\s*\{\s*BytesIoReadError::ImmediateFin\s*=>\s*BytesIoReadError::UnexpectedFin,\s*_\s*=>\s*e,\s*\}\)\?` => `|e: BytesIoReadError| -> (o: BytesIoReadError) ensures o == fin_remap(e) { match e { BytesIoReadError::ImmediateFin => BytesIoReadError::UnexpectedFin, _ => e, } }).map_err(|e: BytesIoReadError| -> (o: IoReadError) ensures o == IoReadError::IO(e) { io_read_error_from(e) })?`
//@ resub `\s*\.await\?` => `.map_err(|e: BytesIoReadError| -> (o: IoReadError) ensures o == IoReadError::IO(e) { io_read_error_from(e) })?`
//@ resub `\s*\.await\b` => ``
//@ subst `|InvalidSessionId| IoReadError::Parse(ParseError::InvalidSessionId)` => `|_e: InvalidSessionId| -> (o: IoReadError) ensures o == IoReadError::Parse(ParseError::InvalidSessionId) { IoReadError::Parse(ParseError::InvalidSessionId) }`
//@ rename `Self::MAX_PARSE_PAYLOAD_ALLOWED` => `4096`
//@ resub `vec!\[0; ([^\]]+)\]` => `vec_zeroed(\1)`
//@ resub `(\w+)\.shrink_to_fit\(\);` => `vec_shrink_to_fit(&mut \1);`
//@ resub `Cow::Owned\((\w+)\)` => `cow_owned(\1)`
//@ prologue let ghost s0 = reader.remaining();
//@ insert_before `Ok(Self::new_webtransport(session_id))` => `proof { if varint_complete(s0) && varint_complete(s0.skip(varint_len_from_first(s0[0]))) { lemma_skip_skip(s0, varint_len_from_first(s0[0]), varint_len_from_first(s0.skip(varint_len_from_first(s0[0]))[0])); } }`
//@ insert_before `let kind = kind.ok_or` => `proof { if varint_complete(s0) && varint_complete(s0.skip(varint_len_from_first(s0[0]))) { let n1 = varint_len_from_first(s0[0]); let n2 = varint_len_from_first(s0.skip(n1)[0]); lemma_skip_skip(s0, n1, n2); if n1 + n2 + varint_val(s0.skip(n1)) <= s0.len() { lemma_skip_skip(s0, n1 + n2, varint_val(s0.skip(n1)) as int); } } }`
//@ ensures read_async_post(old(reader).remaining(), final(reader).remaining(), r)
//@ end
}

//@ include _stream_common.inc

// ---- stream.rs (async) -------------------------------------------------------------------------
//@ extract wtransport-proto/src/stream.rs >> enum IoReadError
//@ subst `enum IoReadError` => `enum StreamIoReadError`
//@ subst `IO(bytes::IoReadError)` => `IO(BytesIoReadError)`
//@ end

// what `read_frame_async` must return on a healthy source holding `input` followed by FIN:
// unknown frames skipped whole; a clean end at a frame boundary (also right after skipped unknown
// frames) is `ImmediateFin`, passed through; an end inside a frame is H3_FRAME_ERROR
spec fn read_frame_async_post(role: int, done: bool, input: Seq<u8>, rest: Seq<u8>, r: Result<Frame<'_>, StreamIoReadError>) -> bool {
    let s1 = skip_unknown(input);
    match ref_frame(s1) {
        RefFrame::NeedMore => if s1.len() == 0 {
            r matches Err(StreamIoReadError::IO(BytesIoReadError::ImmediateFin))
        } else {
            r matches Err(StreamIoReadError::H3(ErrorCode::Frame))
        },
        RefFrame::InvalidSessionId => r matches Err(StreamIoReadError::H3(ErrorCode::Id)),
        RefFrame::TooBig => r matches Err(StreamIoReadError::H3(ErrorCode::ExcessiveLoad)),
        RefFrame::Frame { kind, session, payload, consumed } => match rule(role, kind, done) {
            None => r matches Ok(f) && f.matches_ref(ref_frame(s1)) && rest == s1.skip(consumed),
            Some(e) => r matches Err(StreamIoReadError::H3(e2)) && e2 == e,
        },
        RefFrame::Unknown { consumed } => false,
    }
}

impl Stream<BiLocal, H3> {
//@ extract wtransport-proto/src/stream.rs >> mod bilocal >> impl StreamBiLocalH3 >> fn read_frame_async
//@ subst `async fn` => `fn`
//@ subst `R: AsyncRead + Unpin + ?Sized,` => `R: AsyncReader,`
//@ subst `Frame::read_async(reader).await` => `Frame::read_async(reader)`
//@ rename `bytes::IoReadError` => `BytesIoErrPlaceholder`
//@ rename `frame::IoReadError` => `FrameIoErrPlaceholder`
//@ rename `frame::ParseError` => `ParseError`
//@ rename `IoReadError` => `StreamIoReadError`
//@ rename `FrameIoErrPlaceholder` => `IoReadError`
//@ rename `BytesIoErrPlaceholder` => `BytesIoReadError`
//@ subst `.map_err(StreamIoReadError::H3)` => `.map_err(|e: ErrorCode| -> (o: StreamIoReadError) ensures o == StreamIoReadError::H3(e) { StreamIoReadError::H3(e) })`
//@ prologue let ghost s0 = reader.remaining();
//@ loop 1 decreases reader.remaining().len()
//@ insert_before `match Frame::read_async(reader)` => `proof { lemma_unknown_bounds(reader.remaining()); }`
//@ loop 1 invariant s0 == old(reader).remaining(), skip_unknown(reader.remaining()) == skip_unknown(s0)
//@ ensures read_frame_async_post(1, self.stage.first_frame_done, old(reader).remaining(), final(reader).remaining(), r)
//@ end
}

impl Stream<Bi, Session> {
//@ extract wtransport-proto/src/stream.rs >> mod session >> impl StreamSession >> fn read_frame_async
//@ subst `async fn` => `fn`
//@ subst `R: AsyncRead + Unpin + ?Sized,` => `R: AsyncReader,`
//@ subst `Frame::read_async(reader).await` => `Frame::read_async(reader)`
//@ rename `bytes::IoReadError` => `BytesIoErrPlaceholder`
//@ rename `frame::IoReadError` => `FrameIoErrPlaceholder`
//@ rename `frame::ParseError` => `ParseError`
//@ rename `IoReadError` => `StreamIoReadError`
//@ rename `FrameIoErrPlaceholder` => `IoReadError`
//@ rename `BytesIoErrPlaceholder` => `BytesIoReadError`
//@ subst `.map_err(StreamIoReadError::H3)` => `.map_err(|e: ErrorCode| -> (o: StreamIoReadError) ensures o == StreamIoReadError::H3(e) { StreamIoReadError::H3(e) })`
//@ prologue let ghost s0 = reader.remaining();
//@ loop 1 decreases reader.remaining().len()
//@ insert_before `match Frame::read_async(reader)` => `proof { lemma_unknown_bounds(reader.remaining()); }`
//@ loop 1 invariant s0 == old(reader).remaining(), skip_unknown(reader.remaining()) == skip_unknown(s0)
//@ ensures read_frame_async_post(3, false, old(reader).remaining(), final(reader).remaining(), r)
//@ end
}

impl Stream<BiRemote, H3> {
//@ extract wtransport-proto/src/stream.rs >> mod biremote >> impl StreamBiRemoteH3 >> fn read_frame_async
//@ subst `async fn` => `fn`
//@ subst `R: AsyncRead + Unpin + ?Sized,` => `R: AsyncReader,`
//@ subst `Frame::read_async(reader).await` => `Frame::read_async(reader)`
//@ rename `bytes::IoReadError` => `BytesIoErrPlaceholder`
//@ rename `frame::IoReadError` => `FrameIoErrPlaceholder`
//@ rename `frame::ParseError` => `ParseError`
//@ rename `IoReadError` => `StreamIoReadError`
//@ rename `FrameIoErrPlaceholder` => `IoReadError`
//@ rename `BytesIoErrPlaceholder` => `BytesIoReadError`
//@ subst `.map_err(StreamIoReadError::H3)` => `.map_err(|e: ErrorCode| -> (o: StreamIoReadError) ensures o == StreamIoReadError::H3(e) { StreamIoReadError::H3(e) })`
//@ prologue let ghost s0 = reader.remaining();
//@ loop 1 decreases reader.remaining().len()
//@ insert_before `match Frame::read_async(reader)` => `proof { lemma_unknown_bounds(reader.remaining()); }`
//@ loop 1 invariant s0 == old(reader).remaining(), skip_unknown(reader.remaining()) == skip_unknown(s0), *self == *old(self)
//@ ensures read_frame_async_post(0, old(self).stage.first_frame_done, old(reader).remaining(), final(reader).remaining(), r)
//@ end
}

impl Stream<UniRemote, H3> {
//@ extract wtransport-proto/src/stream.rs >> mod uniremote >> impl StreamUniRemoteH3 >> fn read_frame_async
//@ subst `async fn` => `fn`
//@ subst `R: AsyncRead + Unpin + ?Sized,` => `R: AsyncReader,`
//@ subst `Frame::read_async(reader).await` => `Frame::read_async(reader)`
//@ rename `bytes::IoReadError` => `BytesIoErrPlaceholder`
//@ rename `frame::IoReadError` => `FrameIoErrPlaceholder`
//@ rename `frame::ParseError` => `ParseError`
//@ rename `IoReadError` => `StreamIoReadError`
//@ rename `FrameIoErrPlaceholder` => `IoReadError`
//@ rename `BytesIoErrPlaceholder` => `BytesIoReadError`
//@ subst `.map_err(StreamIoReadError::H3)` => `.map_err(|e: ErrorCode| -> (o: StreamIoReadError) ensures o == StreamIoReadError::H3(e) { StreamIoReadError::H3(e) })`
//@ prologue let ghost s0 = reader.remaining();
//@ loop 1 decreases reader.remaining().len()
//@ insert_before `match Frame::read_async(reader)` => `proof { lemma_unknown_bounds(reader.remaining()); }`
//@ loop 1 invariant s0 == old(reader).remaining(), skip_unknown(reader.remaining()) == skip_unknown(s0), *self == *old(self)
//@ requires old(self).is_control_like()
//@ ensures read_frame_async_post(2, false, old(reader).remaining(), final(reader).remaining(), r)
//@ end
}

} // verus!

fn main() {}
