// Unit `frame`: Frame::read / read_from_buffer logic and the four read_frame skip loops of
// stream.rs, for inputs of ANY length and ANY number of unknown frames (C11, C12, C13, C15).
// Executable text comes from /repo via `//@ extract`; everything else is ghost or an assumed
// interface (listed in the evidence).
use vstd::prelude::*;
use std::borrow::Cow;

verus! {

//@ include _frame_common.inc

//@ include _stream_common.inc

impl Stream<BiLocal, H3> {
//@ extract wtransport-proto/src/stream.rs >> mod bilocal >> impl StreamBiLocalH3 >> fn read_frame
//@ rename `frame::ParseError` => `ParseError`
//@ prologue let ghost s0 = bytes_reader.remaining();
//@ loop 1 invariant s0 == old(bytes_reader).remaining(), skip_unknown(bytes_reader.remaining()) == skip_unknown(s0)
//@ loop 1 decreases bytes_reader.remaining().len()
//@ insert_before `match Frame::read(bytes_reader)` => `proof { lemma_unknown_bounds(bytes_reader.remaining()); }`
//@ ensures read_frame_post(1, self.stage.first_frame_done, old(bytes_reader).remaining(), final(bytes_reader).remaining(), r)
//@ end
}

impl Stream<Bi, Session> {
//@ extract wtransport-proto/src/stream.rs >> mod session >> impl StreamSession >> fn read_frame
//@ rename `frame::ParseError` => `ParseError`
//@ prologue let ghost s0 = bytes_reader.remaining();
//@ loop 1 invariant s0 == old(bytes_reader).remaining(), skip_unknown(bytes_reader.remaining()) == skip_unknown(s0)
//@ loop 1 decreases bytes_reader.remaining().len()
//@ insert_before `match Frame::read(bytes_reader)` => `proof { lemma_unknown_bounds(bytes_reader.remaining()); }`
//@ ensures read_frame_post(3, false, old(bytes_reader).remaining(), final(bytes_reader).remaining(), r)
//@ end
}

impl Stream<BiRemote, H3> {
//@ extract wtransport-proto/src/stream.rs >> mod biremote >> impl StreamBiRemoteH3 >> fn read_frame
//@ rename `frame::ParseError` => `ParseError`
//@ prologue let ghost s0 = bytes_reader.remaining();
//@ loop 1 invariant s0 == old(bytes_reader).remaining(), skip_unknown(bytes_reader.remaining()) == skip_unknown(s0), *self == *old(self)
//@ loop 1 decreases bytes_reader.remaining().len()
//@ insert_before `match Frame::read(bytes_reader)` => `proof { lemma_unknown_bounds(bytes_reader.remaining()); }`
//@ ensures
//@ | read_frame_post(0, old(self).stage.first_frame_done, old(bytes_reader).remaining(), final(bytes_reader).remaining(), r),
//@ | r matches Ok(None) ==> final(self).stage.first_frame_done == old(self).stage.first_frame_done
//@ end
}

impl Stream<UniRemote, H3> {
//@ extract wtransport-proto/src/stream.rs >> mod uniremote >> impl StreamUniRemoteH3 >> fn read_frame
//@ rename `frame::ParseError` => `ParseError`
//@ prologue let ghost s0 = bytes_reader.remaining();
//@ loop 1 invariant s0 == old(bytes_reader).remaining(), skip_unknown(bytes_reader.remaining()) == skip_unknown(s0), *self == *old(self)
//@ loop 1 decreases bytes_reader.remaining().len()
//@ insert_before `match Frame::read(bytes_reader)` => `proof { lemma_unknown_bounds(bytes_reader.remaining()); }`
//@ requires old(self).is_control_like()
//@ ensures read_frame_post(2, false, old(bytes_reader).remaining(), final(bytes_reader).remaining(), r)
//@ end
}


} // verus!

fn main() {}
