// Unit `frame`: Frame::read / read_from_buffer logic and the four read_frame skip loops of
// stream.rs, for inputs of ANY length and ANY number of unknown frames (C11, C12, C13, C15).
// Executable text comes from /repo via `//@ extract`; everything else is ghost or an assumed
// interface (listed in the evidence).
use vstd::prelude::*;
use std::borrow::Cow;

verus! {

global size_of usize == 8;

// ---------------------------------------------------------------------------------------------
// Reference definitions (mirror of /verif/kani/proto/{spec,contracts}.rs)
// ---------------------------------------------------------------------------------------------
spec const VARINT_MAX: u64 = 0x3fff_ffff_ffff_ffff;

spec fn varint_len_from_first(b: u8) -> int {
    if b / 64 == 0 { 1 } else if b / 64 == 1 { 2 } else if b / 64 == 2 { 4 } else { 8 }
}

spec fn varint_complete(s: Seq<u8>) -> bool {
    s.len() >= 1 && s.len() >= varint_len_from_first(s[0])
}

// RFC 9000 §16 value of the varint at the head of `s` - left abstract here: this unit only needs
// that both the decoder and the reference read the SAME number. (Its concrete definition, and that
// the four real BytesReader impls return it, is discharged by Kani: p_buffer_reader_get_varint,
// p_slice_get_varint.)
uninterp spec fn varint_val(s: Seq<u8>) -> u64;

spec fn is_grease(id: u64) -> bool { id >= 0x21 && (id - 0x21) % 0x1f == 0 }
spec fn frame_type_known(id: u64) -> bool { id == 0x00 || id == 0x01 || id == 0x04 || id == 0x41 }

enum RefFrame {
    NeedMore,
    Unknown { consumed: int },
    InvalidSessionId,
    TooBig,
    Frame { kind: u64, session: Option<u64>, payload: Seq<u8>, consumed: int },
}

// RFC 9114 §7.1 (type varint, length varint, payload) + WT draft (0x41, session id varint); the
// endpoint's 4096-byte parse limit; a frame of unknown type is a frame like any other.
spec fn ref_frame(s: Seq<u8>) -> RefFrame {
    if !varint_complete(s) {
        RefFrame::NeedMore
    } else {
        let n1 = varint_len_from_first(s[0]);
        let t = varint_val(s);
        let s2 = s.skip(n1);
        if !varint_complete(s2) {
            RefFrame::NeedMore
        } else {
            let n2 = varint_len_from_first(s2[0]);
            let v2 = varint_val(s2);
            let s3 = s2.skip(n2);
            if t == 0x41 {
                if v2 % 4 != 0 {
                    RefFrame::InvalidSessionId
                } else {
                    RefFrame::Frame { kind: t, session: Some(v2), payload: Seq::<u8>::empty(), consumed: n1 + n2 }
                }
            } else if v2 > 4096 {
                RefFrame::TooBig
            } else if s3.len() < v2 {
                RefFrame::NeedMore
            } else if frame_type_known(t) || is_grease(t) {
                RefFrame::Frame { kind: t, session: None, payload: s3.take(v2 as int), consumed: n1 + n2 + v2 }
            } else {
                RefFrame::Unknown { consumed: n1 + n2 + v2 }
            }
        }
    }
}

proof fn lemma_skip_skip(s: Seq<u8>, a: int, b: int)
    requires 0 <= a, 0 <= b, a + b <= s.len(),
    ensures s.skip(a).skip(b) =~= s.skip(a + b),
{
}

// ---------------------------------------------------------------------------------------------
// varint.rs / ids.rs items used here (verified in unit `ids`; re-extracted so this file is closed)
// ---------------------------------------------------------------------------------------------
struct InvalidSessionId;
struct VarIntBoundsExceeded;

//@ extract wtransport-proto/src/varint.rs >> struct VarInt
//@ end

impl VarInt {
    spec fn wf(self) -> bool { self.0 <= VARINT_MAX }

//@ extract wtransport-proto/src/varint.rs >> impl VarInt >> fn into_inner
//@ ensures r == self.0
//@ end

//@ extract wtransport-proto/src/varint.rs >> impl VarInt >> fn from_u32
//@ keepconst
//@ ensures r.0 == value as u64, r.wf()
//@ end
}

//@ extract wtransport-proto/src/ids.rs >> struct StreamId
//@ end

impl StreamId {
//@ extract wtransport-proto/src/ids.rs >> impl StreamId >> fn new
//@ ensures r.0 == varint
//@ end

//@ extract wtransport-proto/src/ids.rs >> impl StreamId >> fn is_bidirectional
//@ prologue proof { let x = self.0.0; assert((x & 0x2 == 0) == (x % 4 == 0 || x % 4 == 1)) by (bit_vector); }
//@ ensures r == (self.0.0 % 4 == 0 || self.0.0 % 4 == 1)
//@ end

//@ extract wtransport-proto/src/ids.rs >> impl StreamId >> fn is_client_initiated
//@ prologue proof { let x = self.0.0; assert((x & 0x1 == 0) == (x % 4 == 0 || x % 4 == 2)) by (bit_vector); }
//@ ensures r == (self.0.0 % 4 == 0 || self.0.0 % 4 == 2)
//@ end
}

//@ extract wtransport-proto/src/ids.rs >> struct SessionId
//@ end

impl SessionId {
    spec fn val(self) -> u64 { self.0.0.0 }
    spec fn wf(self) -> bool { self.val() <= VARINT_MAX && self.val() % 4 == 0 }

//@ extract wtransport-proto/src/ids.rs >> impl SessionId >> fn try_from_session_stream
//@ requires stream_id.0.wf()
//@ ensures
//@ | match r { Ok(s) => stream_id.0.0 % 4 == 0 && s.0 == stream_id && s.wf(), Err(_) => stream_id.0.0 % 4 != 0 }
//@ end

//@ extract wtransport-proto/src/ids.rs >> impl SessionId >> fn try_from_varint
//@ requires varint.wf()
//@ ensures
//@ | match r { Ok(s) => varint.0 % 4 == 0 && s.val() == varint.0 && s.wf(), Err(_) => varint.0 % 4 != 0 }
//@ end
}

// ---------------------------------------------------------------------------------------------
// Assumed interface: bytes.rs `BytesReader` with a ghost view of the unread bytes.
// Discharged for the real impls (BufferReader, &[u8]) by Kani: p_buffer_reader_get_varint,
// p_slice_get_varint, p_readers_get_bytes.
// ---------------------------------------------------------------------------------------------
trait BytesReader<'a> {
    spec fn remaining(&self) -> Seq<u8>;

    fn get_varint(&mut self) -> (r: Option<VarInt>)
        ensures
            match r {
                Some(v) => varint_complete(old(self).remaining())
                    && v.0 == varint_val(old(self).remaining())
                    && v.wf()
                    && final(self).remaining() == old(self).remaining().skip(varint_len_from_first(old(self).remaining()[0])),
                None => !varint_complete(old(self).remaining()) && final(self).remaining() == old(self).remaining(),
            };

    fn get_bytes(&mut self, len: usize) -> (r: Option<&'a [u8]>)
        ensures
            match r {
                Some(b) => len <= old(self).remaining().len()
                    && b@ == old(self).remaining().take(len as int)
                    && final(self).remaining() == old(self).remaining().skip(len as int),
                None => len > old(self).remaining().len() && final(self).remaining() == old(self).remaining(),
            };
}

// ---------------------------------------------------------------------------------------------
// frame.rs
// ---------------------------------------------------------------------------------------------
//@ extract wtransport-proto/src/frame.rs >> enum ParseError
//@ end

// registry constants referenced by the (external_body) `FrameKind::parse`; their values are
// checked by Kani (p_framekind_id_parse_inverse)
//@ extract wtransport-proto/src/frame.rs >> mod frame_kind_ids
//@ attr #[verifier::external]
//@ keepvis
//@ subst `use crate::varint::VarInt;` => `use super::VarInt;`
//@ end

//@ extract wtransport-proto/src/frame.rs >> enum FrameKind
//@ end

impl FrameKind {
    spec fn code(self) -> u64 {
        match self {
            FrameKind::Data => 0x00,
            FrameKind::Headers => 0x01,
            FrameKind::Settings => 0x04,
            FrameKind::WebTransport => 0x41,
            FrameKind::Exercise(id) => id.0,
        }
    }

    spec fn parse_post(id: u64, r: Option<FrameKind>) -> bool {
        match r {
            Some(FrameKind::Data) => id == 0x00,
            Some(FrameKind::Headers) => id == 0x01,
            Some(FrameKind::Settings) => id == 0x04,
            Some(FrameKind::WebTransport) => id == 0x41,
            Some(FrameKind::Exercise(x)) => is_grease(id) && x.0 == id && !frame_type_known(id),
            None => !frame_type_known(id) && !is_grease(id),
        }
    }

// Contract identical to the one Kani proves on the real function for all 2^62 ids
// (c_framekind_parse); left external_body here because Verus cannot translate `match` on
// struct-typed consts.
//@ extract wtransport-proto/src/frame.rs >> impl FrameKind >> fn is_id_exercise
//@ attr #[verifier::external_body]
//@ ensures r == is_grease(id.0)
//@ nocanary
//@ end

//@ extract wtransport-proto/src/frame.rs >> impl FrameKind >> fn parse
//@ attr #[verifier::external_body]
//@ ensures FrameKind::parse_post(id.0, r)
//@ nocanary
//@ end
}

// helper specs for the two `Cow` deref forms vstd has no spec for (R8 substitutions)
#[verifier::external_body]
fn cow_len(c: &Cow<'_, [u8]>) -> (r: usize)
    ensures r == c@.len()
{
    c.len()
}

#[verifier::external_body]
fn cow_is_empty(c: &Cow<'_, [u8]>) -> (r: bool)
    ensures r == (c@.len() == 0)
{
    c.is_empty()
}

#[verifier::external_body]
fn cow_owned_empty<'a>() -> (r: Cow<'a, [u8]>)
    ensures r@ == Seq::<u8>::empty()
{
    Cow::Owned(Default::default())
}

#[verifier::external_body]
fn cow_borrowed<'a>(b: &'a [u8]) -> (r: Cow<'a, [u8]>)
    ensures r@ == b@
{
    Cow::Borrowed(b)
}

//@ extract wtransport-proto/src/frame.rs >> struct Frame
//@ end

impl<'a> Frame<'a> {
    // type invariant of Frame (established by `new`, the only constructor)
    spec fn wf(self) -> bool {
        &&& (self.kind is WebTransport ==> self.session_id is Some && self.payload@.len() == 0 && self.session_id->0.wf())
        &&& (self.kind matches FrameKind::Exercise(id) ==> is_grease(id.0))
        &&& self.payload@.len() <= VARINT_MAX
    }

    spec fn matches_ref(self, f: RefFrame) -> bool {
        &&& f matches RefFrame::Frame { kind, session, payload, consumed }
        &&& self.kind.code() == kind
        &&& (session matches Some(s) ==> self.kind is WebTransport && self.session_id is Some && self.session_id->0.val() == s)
        &&& (session is None ==> !(self.kind is WebTransport))
        &&& self.payload@ == payload
        &&& self.payload@.len() <= 4096
        &&& self.wf()
    }

//@ extract wtransport-proto/src/frame.rs >> impl<'a> Frame<'a> >> fn new
//@ subst `payload.is_empty()` => `cow_is_empty(&payload)`
//@ subst `payload.len() <= VarInt::MAX.into_inner() as usize` => `cow_len(&payload) <= 4_611_686_018_427_387_903usize`
//@ requires
//@ | payload@.len() <= VARINT_MAX,
//@ | kind is WebTransport ==> payload@.len() == 0 && session_id is Some && session_id->0.wf(),
//@ | kind matches FrameKind::Exercise(id) ==> is_grease(id.0)
//@ ensures r.kind == kind, r.payload == payload, r.session_id == session_id, r.wf()
//@ end

//@ extract wtransport-proto/src/frame.rs >> impl<'a> Frame<'a> >> fn new_webtransport
//@ subst `Cow::Owned(Default::default())` => `cow_owned_empty()`
//@ requires session_id.wf()
//@ ensures r.kind is WebTransport, r.payload@ == Seq::<u8>::empty(), r.session_id == Some(session_id), r.wf()
//@ end

//@ extract wtransport-proto/src/frame.rs >> impl<'a> Frame<'a> >> fn read
//@ subst `|InvalidSessionId| ParseError::InvalidSessionId` => `|_e: InvalidSessionId| -> (o: ParseError) ensures o == ParseError::InvalidSessionId { ParseError::InvalidSessionId }`
//@ subst `Self::MAX_PARSE_PAYLOAD_ALLOWED` => `4096`
//@ subst `Cow::Borrowed(payload)` => `cow_borrowed(payload)`
//@ prologue let ghost s0 = bytes_reader.remaining();
//@ insert_before `Ok(Some(Self::new_webtransport(session_id)))` => `proof { lemma_skip_skip(s0, varint_len_from_first(s0[0]), varint_len_from_first(s0.skip(varint_len_from_first(s0[0]))[0])); }`
//@ insert_before `let kind = kind.ok_or(ParseError::UnknownFrame)?;` => `proof { let n1 = varint_len_from_first(s0[0]); let n2 = varint_len_from_first(s0.skip(n1)[0]); lemma_skip_skip(s0, n1, n2); lemma_skip_skip(s0, n1 + n2, payload_len as int); }`
//@ ensures
//@ | match ref_frame(old(bytes_reader).remaining()) {
//@ |     RefFrame::NeedMore => r matches Ok(None),
//@ |     RefFrame::Unknown { consumed } => r matches Err(ParseError::UnknownFrame)
//@ |         && final(bytes_reader).remaining() == old(bytes_reader).remaining().skip(consumed),
//@ |     RefFrame::InvalidSessionId => r matches Err(ParseError::InvalidSessionId),
//@ |     RefFrame::TooBig => r matches Err(ParseError::PayloadTooBig),
//@ |     RefFrame::Frame { kind, session, payload, consumed } => r matches Ok(Some(f))
//@ |         && f.matches_ref(ref_frame(old(bytes_reader).remaining()))
//@ |         && final(bytes_reader).remaining() == old(bytes_reader).remaining().skip(consumed),
//@ | }
//@ end
}

// the literal substituted for `Self::MAX_PARSE_PAYLOAD_ALLOWED` is its initializer in the source
//@ extract wtransport-proto/src/frame.rs >> impl<'a> Frame<'a> >> const MAX_PARSE_PAYLOAD_ALLOWED
//@ subst `const MAX_PARSE_PAYLOAD_ALLOWED: usize = 4096;` => `spec const MAX_PARSE_PAYLOAD_SRC: int = 4096;`
//@ end

impl<'a> Frame<'a> {
//@ extract wtransport-proto/src/frame.rs >> impl<'a> Frame<'a> >> fn kind
//@ ensures r == self.kind
//@ end
}

// ---------------------------------------------------------------------------------------------
// stream.rs: the four `read_frame` skip loops + `validate_frame` rule tables, verified MODULARLY
// against the contract of `Frame::read` above (not its body), for any number of unknown frames.
// ---------------------------------------------------------------------------------------------
//@ extract wtransport-proto/src/error.rs >> enum ErrorCode
//@ end

//@ extract wtransport-proto/src/stream_header.rs >> enum StreamKind
//@ end

//@ extract wtransport-proto/src/stream_header.rs >> struct StreamHeader
//@ end

impl StreamHeader {
//@ extract wtransport-proto/src/stream_header.rs >> impl StreamHeader >> fn kind
//@ ensures r == self.kind
//@ end
}

//@ extract wtransport-proto/src/stream.rs >> struct Stream
//@ end

//@ extract wtransport-proto/src/stream.rs >> mod types >> struct Bi
//@ end
//@ extract wtransport-proto/src/stream.rs >> mod types >> struct Uni
//@ end
//@ extract wtransport-proto/src/stream.rs >> mod types >> struct Remote
//@ end
//@ extract wtransport-proto/src/stream.rs >> mod types >> struct Local
//@ end
//@ extract wtransport-proto/src/stream.rs >> mod types >> struct BiRemote
//@ end
//@ extract wtransport-proto/src/stream.rs >> mod types >> struct BiLocal
//@ end
//@ extract wtransport-proto/src/stream.rs >> mod types >> struct UniRemote
//@ end
//@ extract wtransport-proto/src/stream.rs >> mod types >> struct H3
//@ end

// assumed std contract (core::mem::replace swaps in the new value and returns the old one)
pub assume_specification<T> [std::mem::replace] (dest: &mut T, src: T) -> (r: T)
    ensures r == *old(dest), *final(dest) == src;

// The session typestate's payload (a SessionRequest = header map) is irrelevant to read_frame;
// it is kept abstract here.
struct Session;

impl H3 {
//@ extract wtransport-proto/src/stream.rs >> mod types >> impl H3 >> fn set_first_frame
//@ ensures r == old(self).first_frame_done, final(self).first_frame_done == true, final(self).stream_header == old(self).stream_header
//@ end

//@ extract wtransport-proto/src/stream.rs >> mod types >> impl H3 >> fn stream_header
//@ ensures r is Some == self.stream_header is Some, r is Some ==> *r->0 == self.stream_header->0
//@ end
}

// RFC 9114 §7.2.1-§7.2.4, §6.2.1 and draft-ietf-webtrans-http3 §4.2: which frame type may appear
// on which stream; `None` = accept, `Some(code)` = connection error to raise.
// role: 0 peer-initiated bidi, 1 locally-initiated bidi, 2 peer control/QPACK/GREASE uni, 3 session
spec fn rule(role: int, kind: u64, first_frame_done: bool) -> Option<ErrorCode> {
    if !frame_type_known(kind) {
        None  // GREASE
    } else if role == 0 {
        if kind == 0x00 || kind == 0x01 { None }
        else if kind == 0x04 { Some(ErrorCode::FrameUnexpected) }
        else if !first_frame_done { None } else { Some(ErrorCode::Frame) }
    } else if role == 1 || role == 3 {
        if kind == 0x00 || kind == 0x01 { None } else { Some(ErrorCode::FrameUnexpected) }
    } else {
        if kind == 0x04 { None } else { Some(ErrorCode::FrameUnexpected) }
    }
}

proof fn lemma_unknown_bounds(s: Seq<u8>)
    ensures ref_frame(s) matches RefFrame::Unknown { consumed } ==> 2 <= consumed <= s.len(),
{
}

// the input with every leading complete unknown frame removed
spec fn skip_unknown(s: Seq<u8>) -> Seq<u8>
    decreases s.len(),
{
    match ref_frame(s) {
        RefFrame::Unknown { consumed } => if 0 < consumed <= s.len() { skip_unknown(s.skip(consumed)) } else { s },
        _ => s,
    }
}

// what `read_frame` must return, for a given role and first-frame state
spec fn read_frame_post(role: int, done: bool, input: Seq<u8>, rest: Seq<u8>, r: Result<Option<Frame<'_>>, ErrorCode>) -> bool {
    let s1 = skip_unknown(input);
    match ref_frame(s1) {
        RefFrame::NeedMore => r matches Ok(None),
        RefFrame::InvalidSessionId => r matches Err(ErrorCode::Id),
        RefFrame::TooBig => r matches Err(ErrorCode::ExcessiveLoad),
        RefFrame::Frame { kind, session, payload, consumed } => match rule(role, kind, done) {
            None => r matches Ok(Some(f)) && f.matches_ref(ref_frame(s1)) && rest == s1.skip(consumed),
            Some(e) => r matches Err(e2) && e2 == e,
        },
        RefFrame::Unknown { consumed } => false,
    }
}

impl Stream<BiLocal, H3> {
//@ extract wtransport-proto/src/stream.rs >> mod bilocal >> impl StreamBiLocalH3 >> fn validate_frame
//@ requires frame.wf()
//@ ensures
//@ | match rule(1, frame.kind.code(), self.stage.first_frame_done) { None => r matches Ok(f) && f == frame, Some(e) => r matches Err(e2) && e2 == e }
//@ end

//@ extract wtransport-proto/src/stream.rs >> mod bilocal >> impl StreamBiLocalH3 >> fn read_frame
//@ subst `frame::ParseError` => `ParseError` x3
//@ prologue let ghost s0 = bytes_reader.remaining();
//@ loop 1 invariant s0 == old(bytes_reader).remaining(), skip_unknown(bytes_reader.remaining()) == skip_unknown(s0)
//@ loop 1 decreases bytes_reader.remaining().len()
//@ insert_before `match Frame::read(bytes_reader)` => `proof { lemma_unknown_bounds(bytes_reader.remaining()); }`
//@ ensures read_frame_post(1, self.stage.first_frame_done, old(bytes_reader).remaining(), final(bytes_reader).remaining(), r)
//@ end
}

impl Stream<Bi, Session> {
//@ extract wtransport-proto/src/stream.rs >> mod session >> impl StreamSession >> fn validate_frame
//@ requires frame.wf()
//@ ensures
//@ | match rule(3, frame.kind.code(), false) { None => r matches Ok(f) && f == frame, Some(e) => r matches Err(e2) && e2 == e }
//@ end

//@ extract wtransport-proto/src/stream.rs >> mod session >> impl StreamSession >> fn read_frame
//@ subst `frame::ParseError` => `ParseError` x3
//@ prologue let ghost s0 = bytes_reader.remaining();
//@ loop 1 invariant s0 == old(bytes_reader).remaining(), skip_unknown(bytes_reader.remaining()) == skip_unknown(s0)
//@ loop 1 decreases bytes_reader.remaining().len()
//@ insert_before `match Frame::read(bytes_reader)` => `proof { lemma_unknown_bounds(bytes_reader.remaining()); }`
//@ ensures read_frame_post(3, false, old(bytes_reader).remaining(), final(bytes_reader).remaining(), r)
//@ end
}

impl Stream<BiRemote, H3> {
//@ extract wtransport-proto/src/stream.rs >> mod biremote >> impl StreamBiRemoteH3 >> fn validate_frame
//@ requires frame.wf()
//@ ensures
//@ | match rule(0, frame.kind.code(), old(self).stage.first_frame_done) { None => r matches Ok(f) && f == frame, Some(e) => r matches Err(e2) && e2 == e },
//@ | final(self).stage.first_frame_done
//@ end

//@ extract wtransport-proto/src/stream.rs >> mod biremote >> impl StreamBiRemoteH3 >> fn read_frame
//@ subst `frame::ParseError` => `ParseError` x3
//@ prologue let ghost s0 = bytes_reader.remaining();
//@ loop 1 invariant s0 == old(bytes_reader).remaining(), skip_unknown(bytes_reader.remaining()) == skip_unknown(s0), *self == *old(self)
//@ loop 1 decreases bytes_reader.remaining().len()
//@ insert_before `match Frame::read(bytes_reader)` => `proof { lemma_unknown_bounds(bytes_reader.remaining()); }`
//@ ensures
//@ | read_frame_post(0, old(self).stage.first_frame_done, old(bytes_reader).remaining(), final(bytes_reader).remaining(), r),
//@ | r matches Ok(None) ==> final(self).stage.first_frame_done == old(self).stage.first_frame_done
//@ end
}

impl Stream<UniRemote, H3> {
    spec fn is_control_like(&self) -> bool {
        self.stage.stream_header is Some && !(self.stage.stream_header->0.kind is WebTransport)
    }

//@ extract wtransport-proto/src/stream.rs >> mod uniremote >> impl StreamUniRemoteH3 >> fn kind
//@ requires self.stage.stream_header is Some
//@ ensures r == self.stage.stream_header->0.kind
//@ end

//@ extract wtransport-proto/src/stream.rs >> mod uniremote >> impl StreamUniRemoteH3 >> fn validate_frame
//@ requires frame.wf()
//@ ensures
//@ | match rule(2, frame.kind.code(), false) { None => r matches Ok(f) && f == frame, Some(e) => r matches Err(e2) && e2 == e },
//@ | *final(self) == *old(self)
//@ end

//@ extract wtransport-proto/src/stream.rs >> mod uniremote >> impl StreamUniRemoteH3 >> fn read_frame
//@ subst `frame::ParseError` => `ParseError` x3
//@ prologue let ghost s0 = bytes_reader.remaining();
//@ loop 1 invariant s0 == old(bytes_reader).remaining(), skip_unknown(bytes_reader.remaining()) == skip_unknown(s0), *self == *old(self)
//@ loop 1 decreases bytes_reader.remaining().len()
//@ insert_before `match Frame::read(bytes_reader)` => `proof { lemma_unknown_bounds(bytes_reader.remaining()); }`
//@ requires old(self).is_control_like()
//@ ensures read_frame_post(2, false, old(bytes_reader).remaining(), final(bytes_reader).remaining(), r)
//@ end
}

} // verus!

fn main() {}
