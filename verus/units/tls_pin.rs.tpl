// Unit `tls_pin`: decision logic of certificate-hash pinning (C10),
// wtransport/src/tls.rs `ServerHashVerification::verify_server_cert`.
//
// The body of `verify_server_cert` is extracted verbatim (re-homed as an inherent method: Verus
// cannot attach contracts to external-trait impls). Everything it calls lives in dependencies
// (x509-parser, time, sha2, rustls, std BTreeSet); those are ASSUMED interfaces below - stand-in
// types with uninterpreted views and `external_body` operations whose contracts only say which
// abstract observation each call returns. What is proved is therefore the function's own logic:
// WHICH of those observations decide acceptance, in what combination, and which error each refusal
// carries - for every certificate, time and pinned set.
use vstd::prelude::*;
use vstd::std_specs::cmp::*;
use vstd::std_specs::ops::*;
use vstd::std_specs::convert::*;

// verif: counter-overflow-undecided
verus! {

//@ include _std_extra.inc

// assumed std contract: `<u64 as TryInto<i64>>::try_into` (vstd carries no spec for this pair)
struct TryFromIntError;
#[verifier::external_body]
fn u64_try_into_i64(x: u64) -> (r: Result<i64, TryFromIntError>)
    ensures r is Ok <==> x <= i64::MAX, r matches Ok(v) ==> v == x,
{ unimplemented!() }

// ---- assumed: rustls-pki-types ---------------------------------------------------------------
#[verifier::external_body]
struct UnixTime { s: u64 }
impl UnixTime {
    uninterp spec fn secs(&self) -> u64;
    #[verifier::external_body]
    fn as_secs(&self) -> (r: u64) ensures r == self.secs() { self.s }
}

#[verifier::external_body]
pub struct CertificateDer { v: Vec<u8> }
impl CertificateDer {
    pub uninterp spec fn der(&self) -> Seq<u8>;
}
impl AsRef<[u8]> for CertificateDer {
    #[verifier::external_body]
    fn as_ref(&self) -> (r: &[u8]) ensures r@ == self.der() { self.v.as_slice() }
}
struct ServerName;

// ---- assumed: time ---------------------------------------------------------------------------
// instants are observed as whole seconds since the epoch; the calendar range of OffsetDateTime
// (years -9999..=9999) is `odt_representable`
#[verifier::external_body]
#[derive(Clone, Copy)]
struct OffsetDateTime { t: i64 }
struct ComponentRange;
uninterp spec fn odt_representable(ts: i64) -> bool;
uninterp spec fn odt_of(ts: i64) -> OffsetDateTime;
impl OffsetDateTime {
    #[verifier::external_body]
    fn from_unix_timestamp(timestamp: i64) -> (r: Result<OffsetDateTime, ComponentRange>)
        ensures
            r is Ok <==> odt_representable(timestamp),
            r matches Ok(t) ==> t == odt_of(timestamp),
    { Ok(OffsetDateTime { t: timestamp }) }
}

spec fn trunc_div(a: int, b: int) -> int { if a >= 0 { a / b } else { -((-a) / b) } }
#[verifier::external_body]
struct Duration { n: i128 }
impl Duration {
    uninterp spec fn nanos(&self) -> int;
    #[verifier::external_body]
    const fn days(days: i64) -> (r: Duration) ensures r.nanos() == days * 86_400 * 1_000_000_000 { Duration { n: days as i128 } }
    // whole units, truncated toward zero (time::Duration accessors)
    #[verifier::external_body]
    fn whole_days(&self) -> (r: i64) ensures r as int == trunc_div(self.nanos(), 86_400int * 1_000_000_000) { unimplemented!() }
    #[verifier::external_body]
    fn whole_hours(&self) -> (r: i64) ensures r as int == trunc_div(self.nanos(), 3_600int * 1_000_000_000) { unimplemented!() }
    #[verifier::external_body]
    fn whole_seconds(&self) -> (r: i64) ensures r as int == trunc_div(self.nanos(), 1_000_000_000) { unimplemented!() }
}
impl PartialEqSpecImpl for Duration {
    closed spec fn obeys_eq_spec() -> bool { true }
    closed spec fn eq_spec(&self, other: &Duration) -> bool { self.nanos() == other.nanos() }
}
impl PartialEq for Duration {
    #[verifier::external_body]
    fn eq(&self, other: &Duration) -> (r: bool) { self.n == other.n }
}
impl PartialOrdSpecImpl for Duration {
    closed spec fn obeys_partial_cmp_spec() -> bool { true }
    closed spec fn partial_cmp_spec(&self, other: &Duration) -> Option<core::cmp::Ordering> {
        if self.nanos() < other.nanos() { Some(core::cmp::Ordering::Less) }
        else if self.nanos() == other.nanos() { Some(core::cmp::Ordering::Equal) }
        else { Some(core::cmp::Ordering::Greater) }
    }
}
impl PartialOrd for Duration {
    #[verifier::external_body]
    fn partial_cmp(&self, other: &Duration) -> (r: Option<core::cmp::Ordering>) { self.n.partial_cmp(&other.n) }
}

// ---- assumed: x509-parser --------------------------------------------------------------------
// ASN1Time: a totally ordered instant. Its order is x509-parser's (derived on (time, generalized));
// `key()` is that order's rank. `a - b` is Some(difference) iff a is after b (x509-parser time.rs).
#[verifier::external_body]
#[derive(Clone, Copy)]
struct ASN1Time { t: i64 }
impl ASN1Time {
    uninterp spec fn key(&self) -> int;
    #[verifier::external_body]
    fn new(dt: OffsetDateTime) -> (r: ASN1Time) ensures r == asn1_new(dt) { ASN1Time { t: dt.t } }
}
uninterp spec fn asn1_new(dt: OffsetDateTime) -> ASN1Time;
uninterp spec fn asn1_diff(a: ASN1Time, b: ASN1Time) -> Option<Duration>;
impl PartialEqSpecImpl for ASN1Time {
    closed spec fn obeys_eq_spec() -> bool { true }
    closed spec fn eq_spec(&self, other: &ASN1Time) -> bool { self.key() == other.key() }
}
impl PartialEq for ASN1Time {
    #[verifier::external_body]
    fn eq(&self, other: &ASN1Time) -> (r: bool) { self.t == other.t }
}
impl PartialOrdSpecImpl for ASN1Time {
    closed spec fn obeys_partial_cmp_spec() -> bool { true }
    closed spec fn partial_cmp_spec(&self, other: &ASN1Time) -> Option<core::cmp::Ordering> {
        if self.key() < other.key() { Some(core::cmp::Ordering::Less) }
        else if self.key() == other.key() { Some(core::cmp::Ordering::Equal) }
        else { Some(core::cmp::Ordering::Greater) }
    }
}
impl PartialOrd for ASN1Time {
    #[verifier::external_body]
    fn partial_cmp(&self, other: &ASN1Time) -> (r: Option<core::cmp::Ordering>) { self.t.partial_cmp(&other.t) }
}
impl SubSpecImpl<ASN1Time> for ASN1Time {
    closed spec fn obeys_sub_spec() -> bool { true }
    closed spec fn sub_req(self, rhs: ASN1Time) -> bool { true }
    closed spec fn sub_spec(self, rhs: ASN1Time) -> Option<Duration> { asn1_diff(self, rhs) }
}
impl core::ops::Sub<ASN1Time> for ASN1Time {
    type Output = Option<Duration>;
    #[verifier::external_body]
    fn sub(self, rhs: ASN1Time) -> Option<Duration> { None }
}

struct Validity { not_before: ASN1Time, not_after: ASN1Time }

#[derive(Clone, Copy)]
struct Oid { id: u64 }
impl PartialEqSpecImpl for Oid {
    closed spec fn obeys_eq_spec() -> bool { true }
    closed spec fn eq_spec(&self, other: &Oid) -> bool { self.id == other.id }
}
impl PartialEq for Oid {
    fn eq(&self, other: &Oid) -> (r: bool) { self.id == other.id }
}
// two distinct registry entries (1.2.840.10045.2.1 id-ecPublicKey, 1.2.840.10045.3.1.7 prime256v1)
const OID_KEY_TYPE_EC_PUBLIC_KEY: Oid = Oid { id: 1 };
const OID_EC_P256: Oid = Oid { id: 2 };

struct BerError;
#[verifier::external_body]
struct Any { o: u64 }
impl Any {
    uninterp spec fn oid_view(&self) -> Result<Oid, BerError>;
    #[verifier::external_body]
    fn as_oid(&self) -> (r: Result<Oid, BerError>) ensures r == self.oid_view() { Ok(Oid { id: self.o }) }
}
struct AlgorithmIdentifier { algorithm: Oid, parameters: Option<Any> }
struct SubjectPublicKeyInfo { algorithm: AlgorithmIdentifier }
struct X509Error;

struct X509Certificate { validity: Validity, subject_pki: SubjectPublicKeyInfo }
// what x509-parser makes of a DER string: a certificate or nothing
uninterp spec fn x509_of(der: Seq<u8>) -> Option<X509Certificate>;
impl X509Certificate {
    #[verifier::external_body]
    fn from_der(i: &[u8]) -> (r: Result<(&[u8], X509Certificate), X509Error>)
        ensures
            r is Ok <==> x509_of(i@) is Some,
            r matches Ok(p) ==> Some(p.1) == x509_of(i@),
    { unimplemented!() }
    fn validity(&self) -> (r: &Validity) ensures *r == self.validity { &self.validity }
    fn public_key(&self) -> (r: &SubjectPublicKeyInfo) ensures *r == self.subject_pki { &self.subject_pki }
}

// ---- assumed: sha2 ---------------------------------------------------------------------------
uninterp spec fn sha256(data: Seq<u8>) -> [u8; 32];
struct DigestOutput { a: [u8; 32] }
impl FromSpecImpl<DigestOutput> for [u8; 32] {
    closed spec fn obeys_from_spec() -> bool { true }
    closed spec fn from_spec(v: DigestOutput) -> [u8; 32] { v.a }
}
impl From<DigestOutput> for [u8; 32] {
    fn from(v: DigestOutput) -> (r: [u8; 32]) { v.a }
}
struct Sha256;
impl Sha256 {
    #[verifier::external_body]
    fn digest(data: &[u8]) -> (r: DigestOutput) ensures r.a == sha256(data@) { unimplemented!() }
}

// ---- assumed: rustls -------------------------------------------------------------------------
enum CertificateError { BadEncoding, Expired, NotValidYet, UnknownIssuer, Other }
enum RustlsError { InvalidCertificate(CertificateError), General }
impl FromSpecImpl<CertificateError> for RustlsError {
    closed spec fn obeys_from_spec() -> bool { true }
    closed spec fn from_spec(v: CertificateError) -> RustlsError { RustlsError::InvalidCertificate(v) }
}
impl From<CertificateError> for RustlsError {
    fn from(v: CertificateError) -> (r: RustlsError) { RustlsError::InvalidCertificate(v) }
}
struct ServerCertVerified;
impl ServerCertVerified {
    fn assertion() -> ServerCertVerified { ServerCertVerified }
}
struct WebPkiSupportedAlgorithms;

// ---- assumed: std BTreeSet<Sha256Digest> -----------------------------------------------------
#[verifier::external_body]
#[verifier::reject_recursive_types(T)]
struct BTreeSet<T> { v: Vec<T> }
impl BTreeSet<Sha256Digest> {
    uninterp spec fn view(&self) -> Set<[u8; 32]>;
    #[verifier::external_body]
    fn contains(&self, d: &Sha256Digest) -> (r: bool) ensures r == self@.contains(d.0) { unimplemented!() }
}

// ---- tls.rs ----------------------------------------------------------------------------------
//@ extract wtransport/src/tls.rs >> struct Sha256Digest
//@ end

//@ extract wtransport/src/tls.rs >> mod client >> struct ServerHashVerification
//@ rename `std::collections::BTreeSet` => `BTreeSet`
//@ end

spec const FOURTEEN_DAYS_NANOS: int = 14int * 86_400 * 1_000_000_000;

// The property's four conditions, over the dependencies' observations of the inputs:
spec fn pin_accepts(pinned: Set<[u8; 32]>, der: Seq<u8>, now: ASN1Time) -> bool {
    &&& x509_of(der) matches Some(c)
    // (1) the current time lies within the validity period
    &&& c.validity.not_before.key() <= now.key() <= c.validity.not_after.key()
    // (2) that period is at most 14 days
    &&& asn1_diff(c.validity.not_after, c.validity.not_before) matches Some(p) && p.nanos() <= FOURTEEN_DAYS_NANOS
    // (3) the key is ECDSA P-256
    &&& c.subject_pki.algorithm.algorithm.id == OID_KEY_TYPE_EC_PUBLIC_KEY.id
    &&& c.subject_pki.algorithm.parameters matches Some(any) && any.oid_view() matches Ok(oid) && oid.id == OID_EC_P256.id
    // (4) the leaf's SHA-256 is in the configured set
    &&& pinned.contains(sha256(der))
}

// the verifier's notion of "now": the handshake's UnixTime as an ASN1Time
spec fn now_of(now: UnixTime) -> ASN1Time { asn1_new(odt_of(now.secs() as i64)) }

impl ServerHashVerification {
//@ extract wtransport/src/tls.rs >> mod client >> impl ServerHashVerification >> const SELF_MAX_VALIDITY
//@ optional
//@ subst `const SELF_MAX_VALIDITY: time::Duration =` => `exec const SELF_MAX_VALIDITY: Duration ensures Self::SELF_MAX_VALIDITY.nanos() == FOURTEEN_DAYS_NANOS {`
//@ subst `;` => ` }`
//@ rename `time::Duration` => `Duration`
//@ end

//@ extract wtransport/src/tls.rs >> mod client >> impl ServerCertVerifier for ServerHashVerification >> fn verify_server_cert
//@ rename `rustls_pki_types::ServerName` => `ServerName`
//@ rename `rustls_pki_types::UnixTime` => `UnixTime`
//@ rename `rustls::CertificateError` => `CertificateError`
//@ rename `rustls::Error` => `RustlsError`
//@ expand_matches
//@ drop `use time::OffsetDateTime;`
//@ drop `use x509_parser::oid_registry::OID_EC_P256;`
//@ drop `use x509_parser::oid_registry::OID_KEY_TYPE_EC_PUBLIC_KEY;`
//@ drop `use x509_parser::time::ASN1Time;`
//@ substw `now.as_secs() .try_into()` => `u64_try_into_i64(now.as_secs())`
//@ subst `|time| OffsetDateTime::from_unix_timestamp(time).ok()` => `|time: i64| -> (o: Option<OffsetDateTime>) ensures o is Some <==> odt_representable(time), o matches Some(t) ==> t == odt_of(time) { OffsetDateTime::from_unix_timestamp(time).ok() }`
//@ subst `|_| CertificateError::BadEncoding` => `|_e: X509Error| -> (o: CertificateError) ensures o == CertificateError::BadEncoding { CertificateError::BadEncoding }` x2
//@ subst `|any| any.as_oid()` => `|any: &Any| -> (o: Result<Oid, BerError>) ensures o == any.oid_view() { any.as_oid() }`
//@ requires now.secs() <= i64::MAX, odt_representable(now.secs() as i64)
//@ ensures
//@ | r is Ok <==> pin_accepts(self.hashes@, end_entity.der(), now_of(now)),
//@ end
}

} // verus!

fn main() {}
