// Unit `qpack_encode`: `Encoder::encode` (C14, C16) - the field section emitted for ANY list of
// fields is the two-byte prefix (Required Insert Count 0, Base 0) followed, field by field, by
// exactly one line of the RFC 9204 §4.5 grammar chosen from the static-table lookup:
//   exact hit      -> indexed field line        (6-bit prefix integer, flags 0b11 = static)
//   name-only hit  -> literal with name ref     (4-bit prefix integer, flags 0b0101 = N=0,T=1) + value string
//   no hit         -> literal with literal name (name string, 3-bit prefix, flags 0b10) + value string
// The primitives are callees under contract: `encode_integer` (Kani: p_qpack_encode_integer_n*,
// output == RFC 7541 §5.1), `StaticTable::lookup_index` (Kani: p_qpack_lookup_index_sound),
// `encode_string` (assumed: httlib-huffman). R8: the generic `for (key, value) in
// headers.into_iter()` is re-expressed as an indexed loop over a vector of string pairs (Verus has
// no specification for arbitrary `IntoIterator`s); the loop body is verbatim.
use vstd::prelude::*;

verus! {

global size_of usize == 8;

#[derive(Debug)]
struct EndOfBuffer;

//@ include _qpack_spec.inc

// assumed interface: bytes.rs `impl BytesWriter for Vec<u8>` (Kani: p_vec_put_varint, p_vec_put_bytes)
trait BytesWriter {
    spec fn written(&self) -> Seq<u8>;

    fn put_bytes(&mut self, bytes: &[u8]) -> (r: Result<(), EndOfBuffer>)
        ensures r is Ok, final(self).written() == old(self).written() + bytes@;
}

impl BytesWriter for Vec<u8> {
    spec fn written(&self) -> Seq<u8> { self@ }

    #[verifier::external_body]
    fn put_bytes(&mut self, bytes: &[u8]) -> (r: Result<(), EndOfBuffer>)
    {
        unimplemented!()
    }
}

struct StaticTable;

impl StaticTable {
    #[verifier::external_body]
    fn lookup_index(key: &str, value: &str) -> (r: Option<LookupIndexFound>)
        ensures r == lookup(key@, value@),
    {
        unimplemented!()
    }
}

struct Encoder;

impl Encoder {
    // Kani: p_qpack_encode_integer_n{3,4,6,7,8} (a Vec never reports EndOfBuffer: p_vec_put_varint)
    #[verifier::external_body]
    fn encode_integer<const N: usize>(flags: u8, value: usize, bytes_writer: &mut Vec<u8>) -> (r: Result<(), EndOfBuffer>)
        ensures r is Ok, final(bytes_writer)@ == old(bytes_writer)@ + enc_int(N as int, flags, value),
    {
        unimplemented!()
    }

    // assumed (httlib-huffman): appends the string literal of RFC 7541 §5.2 with the given flags
    #[verifier::external_body]
    fn encode_string<const N: usize>(flags: u8, value: &str, bytes_writer: &mut Vec<u8>) -> (r: Result<(), EndOfBuffer>)
        ensures r is Ok, final(bytes_writer)@ == old(bytes_writer)@ + enc_str(N as int, flags, value@),
    {
        unimplemented!()
    }

//@ extract wtransport-proto/src/qpack.rs >> impl Encoder >> fn encode
//@ subst `fn encode<H, K, V>(headers: H) -> Box<[u8]>
//@ |    where
//@ |        H: IntoIterator<Item = (K, V)>,
//@ |        K: AsRef<str>,
//@ |        V: AsRef<str>,` => `fn encode(headers: &Vec<(&str, &str)>) -> Vec<u8>`
//@ subst `for (key, value) in headers.into_iter() {` => `for i in 0..headers.len()
//@ |            invariant buffer@ == enc_int(8, 0, 0) + enc_int(7, 0, 0) + QpackSpec::field_lines(headers@, i as int),
//@ |        { let (key, value) = headers[i];`
//@ subst `key.as_ref(), value.as_ref()` => `key, value`
//@ resub `::<(\d+), _(?:, _)?>` => `::<\1>`
//@ subst `buffer.into_boxed_slice()` => `buffer`
//@ ensures r@ == enc_int(8, 0, 0) + enc_int(7, 0, 0) + QpackSpec::field_lines(headers@, headers@.len() as int)
//@ end
}

} // verus!

fn main() {}
