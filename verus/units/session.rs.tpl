// Unit `session`: admission predicates of session.rs (C18) for ALL header maps.
// `Headers` (a HashMap<String,String>) is an assumed interface with a ghost map view; the bodies of
// `TryFrom<Headers> for SessionRequest` and `TryFrom<Headers> for SessionResponse` are extracted
// verbatim (re-homed as inherent methods: Verus cannot attach contracts to external-trait impls).
use vstd::prelude::*;

// verif: counter-overflow-undecided
verus! {

//@ include _std_extra.inc

// ---- headers.rs `Headers`: a HashMap<String, String> (assumed container with a ghost map view) -------
#[verifier::external_body]
struct StrMap {
    inner: std::collections::HashMap<String, String>,
}
impl StrMap {
    uninterp spec fn view(&self) -> Map<Seq<char>, Seq<char>>;
    // assumed std contract: HashMap<String,String>::insert
    #[verifier::external_body]
    fn insert(&mut self, k: String, v: String) -> (r: Option<String>)
        ensures final(self)@ == old(self)@.insert(k@, v@),
    { self.inner.insert(k, v) }
}
// std `ToString` for the key / value types (assumed interface: the text a value converts to)
trait ToStr {
    spec fn tostr(&self) -> Seq<char>;
    fn to_string(&self) -> (r: String) ensures r@ == self.tostr();
}
impl ToStr for String {
    closed spec fn tostr(&self) -> Seq<char> { self@ }
    #[verifier::external_body]
    fn to_string(&self) -> (r: String) { self.clone() }
}
// assumed std contract: str::to_ascii_lowercase / to_lowercase return SOME function of the text
pub uninterp spec fn ascii_lower(s: Seq<char>) -> Seq<char>;
pub assume_specification[str::to_ascii_lowercase](s: &str) -> (r: String)
    ensures r@ == ascii_lower(s@);

//@ extract wtransport-proto/src/headers.rs >> struct Headers
//@ rename `HashMap<String, String>` => `StrMap`
//@ end

impl Headers {
    spec fn view(&self) -> Map<Seq<char>, Seq<char>> { self.0@ }

    // assumed std contract: HashMap<String,String>::get + as_str
    #[verifier::external_body]
    fn get(&self, key: &str) -> (r: Option<&str>)
        ensures
            match r {
                Some(v) => self@.contains_key(key@) && v@ == self@[key@],
                None => !self@.contains_key(key@),
            },
    {
        self.0.inner.get(key).map(|s| s.as_str())
    }

// the field is stored under EXACTLY the given name with exactly the given value; nothing else changes
//@ extract wtransport-proto/src/headers.rs >> impl Headers >> fn insert
//@ rename `ToString` => `ToStr`
//@ ensures final(self)@ == old(self)@.insert(key.tostr(), value.tostr())
//@ end
}

// ---- ids.rs StatusCode: contract of FromStr as proved by Kani (p_statuscode_from_str) ---------
struct InvalidStatusCode;

//@ extract wtransport-proto/src/ids.rs >> struct StatusCode
//@ end

impl StatusCode {
    spec fn wf(self) -> bool { 100 <= self.0 <= 599 }

//@ extract wtransport-proto/src/ids.rs >> impl StatusCode >> fn is_successful
//@ subst `(200..300).contains(&self.0)` => `self.0 >= 200 && self.0 < 300`
//@ ensures r == (200 <= self.0 <= 299)
//@ end

//@ extract wtransport-proto/src/ids.rs >> impl StatusCode >> fn into_inner
//@ ensures r == self.0
//@ end

//@ extract wtransport-proto/src/ids.rs >> impl StatusCode >> const OK
//@ end
//@ extract wtransport-proto/src/ids.rs >> impl StatusCode >> const FORBIDDEN
//@ end
//@ extract wtransport-proto/src/ids.rs >> impl StatusCode >> const NOT_FOUND
//@ end
//@ extract wtransport-proto/src/ids.rs >> impl StatusCode >> const TOO_MANY_REQUESTS
//@ end
}

// whether a string is an acceptable status, and its value: abstract here (decided by Kani on the
// real `FromStr`: Ok(c) => 100 <= c <= 599 and c is the decimal value)
uninterp spec fn status_of(s: Seq<char>) -> Option<u16>;

#[verifier::external_body]
fn status_from_str(s: &str) -> (r: Result<StatusCode, InvalidStatusCode>)
    ensures
        match r {
            Ok(c) => status_of(s@) == Some(c.0) && c.wf(),
            Err(_) => status_of(s@) is None,
        },
{
    unimplemented!()
}

// ---- session.rs -------------------------------------------------------------------------------
//@ extract wtransport-proto/src/session.rs >> enum HeadersParseError
//@ end

//@ extract wtransport-proto/src/session.rs >> struct SessionRequest
//@ end

//@ extract wtransport-proto/src/session.rs >> struct SessionResponse
//@ end

spec fn present(h: Map<Seq<char>, Seq<char>>, k: Seq<char>) -> bool { h.contains_key(k) }

// RFC 9220 / WT draft §3: an extended CONNECT with :protocol = webtransport over https, with
// :authority and :path
spec fn is_wt_request(h: Map<Seq<char>, Seq<char>>) -> bool {
    &&& present(h, ":method"@) && h[":method"@] == "CONNECT"@
    &&& present(h, ":scheme"@) && h[":scheme"@] == "https"@
    &&& present(h, ":protocol"@) && h[":protocol"@] == "webtransport"@
    &&& present(h, ":authority"@)
    &&& present(h, ":path"@)
}

// the five reserved pseudo-headers (the content of SessionRequest::RESERVED_HEADERS is proved on the
// real crate by Kani p_reserved_headers_list)
spec fn reserved(k: Seq<char>) -> bool {
    k == ":method"@ || k == ":scheme"@ || k == ":protocol"@ || k == ":authority"@ || k == ":path"@
}
struct ReservedHeader;
// `Self::RESERVED_HEADERS.iter().any(|rh| rh == &key)`: membership in that list (iterator + closure,
// outside Verus)
#[verifier::external_body]
fn is_reserved_header(key: &String) -> (r: bool) ensures r == reserved(key@) { unimplemented!() }

impl SessionRequest {
// C18: an application can never override a reserved pseudo-header - a reserved NAME is refused, any
// other field is stored under exactly its own name, so every reserved field keeps its value
//@ extract wtransport-proto/src/session.rs >> impl SessionRequest >> fn insert
//@ rename `ToString` => `ToStr`
//@ resub `Self::RESERVED_HEADERS\s*\.iter\(\)\s*\.any\(\|rh\| rh == &key\)` => `is_reserved_header(&key)`
//@ ensures
//@ | r is Err <==> reserved(key.tostr()),
//@ | r is Err ==> final(self).0@ == old(self).0@,
//@ | r is Ok ==> final(self).0@ == old(self).0@.insert(key.tostr(), value.tostr()),
//@ | r is Ok ==> (forall|k: Seq<char>| reserved(k) ==> final(self).0@.contains_key(k) == old(self).0@.contains_key(k)
//@ |     && (old(self).0@.contains_key(k) ==> final(self).0@[k] == old(self).0@[k])),
//@ end

//@ extract wtransport-proto/src/session.rs >> impl TryFrom<Headers> for SessionRequest >> fn try_from
//@ subst `Self::Error` => `HeadersParseError`
//@ prologue proof { reveal_strlit(":method"); reveal_strlit(":scheme"); reveal_strlit(":protocol"); reveal_strlit(":authority"); reveal_strlit(":path"); reveal_strlit("CONNECT"); reveal_strlit("https"); reveal_strlit("webtransport"); }
//@ ensures
//@ | r is Ok <==> is_wt_request(headers@),
//@ | r matches Ok(req) ==> req.0@ == headers@,
//@ | r matches Err(e) ==> match e {
//@ |     HeadersParseError::MissingMethod => !present(headers@, ":method"@),
//@ |     HeadersParseError::MethodNotConnect => present(headers@, ":method"@) && headers@[":method"@] != "CONNECT"@,
//@ |     HeadersParseError::MissingScheme => !present(headers@, ":scheme"@),
//@ |     HeadersParseError::SchemeNotHttps => present(headers@, ":scheme"@) && headers@[":scheme"@] != "https"@,
//@ |     HeadersParseError::MissingProtocol => !present(headers@, ":protocol"@),
//@ |     HeadersParseError::ProtocolNotWebTransport => present(headers@, ":protocol"@) && headers@[":protocol"@] != "webtransport"@,
//@ |     HeadersParseError::MissingAuthority => !present(headers@, ":authority"@),
//@ |     HeadersParseError::MissingPath => !present(headers@, ":path"@),
//@ |     _ => false,
//@ | }
//@ end
}

impl SessionResponse {
    // assumed: builds the one-field map {":status": code}; `code()` reads it back
    // (to_string/parse of a u16 trusted)
    #[verifier::external_body]
    fn with_status_code(status_code: StatusCode) -> (r: SessionResponse)
        ensures r.status() == status_code.0,
    {
        unimplemented!()
    }

    uninterp spec fn status(&self) -> u16;

// the canned answers: accept = 200, refusals = 403 / 404 / 429 (RFC 9110 registry; never 2xx)
//@ extract wtransport-proto/src/session.rs >> impl SessionResponse >> fn ok
//@ ensures r.status() == 200
//@ end
//@ extract wtransport-proto/src/session.rs >> impl SessionResponse >> fn forbidden
//@ ensures r.status() == 403
//@ end
//@ extract wtransport-proto/src/session.rs >> impl SessionResponse >> fn not_found
//@ ensures r.status() == 404
//@ end
//@ extract wtransport-proto/src/session.rs >> impl SessionResponse >> fn too_many_requests
//@ ensures r.status() == 429
//@ end

//@ extract wtransport-proto/src/session.rs >> impl TryFrom<Headers> for SessionResponse >> fn try_from
//@ subst `Self::Error` => `HeadersParseError`
//@ subst `.parse()
//@ |            .map_err(|InvalidStatusCode| HeadersParseError::InvalidStatusCode)?` => `;
//@ |        let status_code = status_from_str(status_code).map_err(|_e: InvalidStatusCode| -> (o: HeadersParseError) ensures o == HeadersParseError::InvalidStatusCode { HeadersParseError::InvalidStatusCode })?`
//@ prologue proof { reveal_strlit(":status"); }
//@ ensures
//@ | r is Ok <==> present(headers@, ":status"@) && status_of(headers@[":status"@]) is Some,
//@ | r matches Ok(resp) ==> Some(resp.status()) == status_of(headers@[":status"@]) && 100 <= resp.status() <= 599,
//@ | r matches Err(e) ==> match e {
//@ |     HeadersParseError::MissingStatusCode => !present(headers@, ":status"@),
//@ |     HeadersParseError::InvalidStatusCode => present(headers@, ":status"@) && status_of(headers@[":status"@]) is None,
//@ |     _ => false,
//@ | }
//@ end
}

// the outcome depends on nothing but `:status`: two maps agreeing on it are treated alike
proof fn lemma_extra_fields_irrelevant(a: Map<Seq<char>, Seq<char>>, b: Map<Seq<char>, Seq<char>>)
    requires present(a, ":status"@) == present(b, ":status"@), present(a, ":status"@) ==> a[":status"@] == b[":status"@],
    ensures (present(a, ":status"@) && status_of(a[":status"@]) is Some) == (present(b, ":status"@) && status_of(b[":status"@]) is Some),
{
}

} // verus!

fn main() {}
