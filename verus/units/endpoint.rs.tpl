// Unit `endpoint`: session establishment in wtransport/src/endpoint.rs (C02 "connect yields a usable
// session iff the server accepts", C18 acceptance only on a valid 2xx status) - the part of
// `Endpoint::connect` from the HTTP/3 settings exchange to the end (R12: the URL / DNS / QUIC-connect
// prefix is dropped and NOT under contract), and the server's `send_response` / `accept_impl`.
//
// `async fn` bodies by R9 (sequential composition of the awaits). The driver, the session stream and
// the QUIC connection are ASSUMED stand-ins: every awaited operation answers by an unknown outcome
// (uninterpreted), the session stream delivers an unknown infinite sequence of read results, and
// `close(code)` on the QUIC connection carries a ghost log of the codes it was given.
use vstd::prelude::*;
use vstd::std_specs::cmp::*;

// verif: counter-overflow-undecided
verus! {

#[derive(Clone, Copy)]
struct VarInt { v: u64 }
#[derive(Clone, Copy)]
struct QVarInt { v: u64 }
#[derive(Clone, Copy)]
struct SessionId { v: u64 }

//@ extract wtransport-proto/src/error.rs >> enum ErrorCode
//@ end
//@ extract wtransport-proto/src/frame.rs >> enum FrameKind
//@ end
//@ extract wtransport-proto/src/bytes.rs >> mod r#async >> enum IoReadError
//@ end
//@ extract wtransport-proto/src/stream.rs >> enum IoReadError
//@ subst `enum IoReadError` => `enum ProtoReadError`
//@ rename `bytes::IoReadError` => `IoReadError`
//@ end
//@ extract wtransport-proto/src/bytes.rs >> mod r#async >> enum IoWriteError
//@ subst `enum IoWriteError` => `enum ProtoWriteError`
//@ end

impl ErrorCode {
    uninterp spec fn code_spec(self) -> u64;
    // registry value: proved on the real crate by Kani c_error_code_to_code
    #[verifier::external_body]
    fn to_code(self) -> (r: VarInt) ensures r.v == self.code_spec() { unimplemented!() }
}
// driver/utils.rs varint_w2q keeps the value (Kani p_varint_conversions_identity on the real crate)
#[verifier::external_body]
fn varint_w2q(varint: VarInt) -> (r: QVarInt) ensures r.v == varint.v { unimplemented!() }

#[verifier::external_body]
struct Frame { x: u8 }
impl Frame {
    uninterp spec fn kind_spec(&self) -> FrameKind;
    #[verifier::external_body]
    fn kind(&self) -> (r: FrameKind) ensures r == self.kind_spec() { unimplemented!() }
}
#[verifier::external_body]
struct Headers { x: u8 }
uninterp spec fn headers_of(frame: Frame) -> Result<Headers, ErrorCode>;
impl Headers {
    #[verifier::external_body]
    fn with_frame(frame: &Frame) -> (r: Result<Headers, ErrorCode>) ensures r == headers_of(*frame) { unimplemented!() }
    #[verifier::external_body]
    fn generate_frame(&self) -> Frame { unimplemented!() }
}

// session.rs SessionResponse: Ok iff `:status` present and a valid status (unit `session`)
//@ extract wtransport-proto/src/ids.rs >> struct StatusCode
//@ noderive
//@ end
impl Clone for StatusCode { fn clone(&self) -> (r: StatusCode) ensures r == *self { StatusCode(self.0) } }
impl Copy for StatusCode {}
impl PartialEqSpecImpl for StatusCode {
    closed spec fn obeys_eq_spec() -> bool { true }
    closed spec fn eq_spec(&self, other: &StatusCode) -> bool { self.0 == other.0 }
}
impl PartialEq for StatusCode { fn eq(&self, other: &StatusCode) -> (r: bool) { self.0 == other.0 } }
impl StatusCode {
//@ extract wtransport-proto/src/ids.rs >> impl StatusCode >> const OK
//@ optional
//@ end
//@ extract wtransport-proto/src/ids.rs >> impl StatusCode >> const FORBIDDEN
//@ optional
//@ end
//@ extract wtransport-proto/src/ids.rs >> impl StatusCode >> const NOT_FOUND
//@ optional
//@ end
//@ extract wtransport-proto/src/ids.rs >> impl StatusCode >> const TOO_MANY_REQUESTS
//@ optional
//@ end
    // ids.rs: 200..=299 (unit `ids` / Kani p_statuscode_*)
    #[verifier::external_body]
    fn is_successful(self) -> (r: bool) ensures r == (200 <= self.0 <= 299) { unimplemented!() }
    #[verifier::external_body]
    fn into_inner(self) -> (r: u16) ensures r == self.0 { unimplemented!() }
}
struct SessionResponseProto { status: StatusCode, h: Headers }
struct HeadersParseError;
uninterp spec fn response_of(headers: Headers) -> Result<SessionResponseProto, HeadersParseError>;
impl SessionResponseProto {
    #[verifier::external_body]
    fn try_from(headers: Headers) -> (r: Result<SessionResponseProto, HeadersParseError>) ensures r == response_of(headers) { unimplemented!() }
    fn code(&self) -> (r: StatusCode) ensures r == self.status { self.status }
    fn headers(&self) -> (r: &Headers) ensures *r == self.h { &self.h }
    uninterp spec fn ok_spec() -> SessionResponseProto;
    #[verifier::external_body]
    fn ok() -> (r: SessionResponseProto) ensures r == Self::ok_spec() { unimplemented!() }
}
#[verifier::external_body]
struct SessionRequestProto { x: u8 }
impl SessionRequestProto {
    #[verifier::external_body]
    fn headers(&self) -> &Headers { unimplemented!() }
}

struct ApplicationClose { code: VarInt, reason: Vec<u8> }
//@ extract wtransport/src/driver/mod.rs >> enum DriverError
//@ noderive
//@ end

// ---- error.rs ---------------------------------------------------------------------------------------
struct H3Error { code: ErrorCode }
#[verifier::external_body]
struct QuicCloseReason { x: u8 }
// ConnectionError: the variants this unit distinguishes; every other cause is `Transport`
enum ConnectionError { ApplicationClosed(ApplicationClose), LocalH3Error(H3Error), LocallyClosed, Transport(QuicCloseReason) }
impl ConnectionError {
    uninterp spec fn no_connect_spec(c: &QuicConnection) -> ConnectionError;
    #[verifier::external_body]
    fn no_connect(quic_connection: &QuicConnection) -> (r: ConnectionError) ensures r == Self::no_connect_spec(quic_connection), !(r is LocalH3Error) { unimplemented!() }

//@ extract wtransport/src/error.rs >> impl ConnectionError >> fn with_driver_error
//@ rename `quinn::Connection` => `QuicConnection`
//@ ensures
//@ | match driver_error {
//@ |     DriverError::Proto(c) => r == ConnectionError::LocalH3Error(H3Error { code: c }),
//@ |     DriverError::ApplicationClosed(a) => r == ConnectionError::ApplicationClosed(a),
//@ |     DriverError::NotConnected => r == Self::no_connect_spec(quic_connection),
//@ | }
//@ end

//@ extract wtransport/src/error.rs >> impl ConnectionError >> fn local_h3_error
//@ ensures r == ConnectionError::LocalH3Error(H3Error { code: error_code })
//@ end
}

enum ConnectingError { InvalidUrl, DnsNotFound, ConnectionError(ConnectionError), SessionRejected, ReservedHeader(String), Other }
impl ConnectingError {
    #[verifier::external_body]
    fn with_no_connection(quic_connection: &QuicConnection) -> (r: ConnectingError)
        ensures r matches ConnectingError::ConnectionError(e) && !(e is LocalH3Error),
    { unimplemented!() }
}

// ---- assumed: quinn connection, driver, session stream -------------------------------------------------
// the QUIC connection handle: `closes` is the list of application codes it was told to close with
struct QuicConnection { closes: Ghost<Seq<u64>> }
impl QuicConnection {
    // quinn::Connection::close takes `&self`; the handle here is owned by the function under
    // contract, and the log must be carried, so the stand-in takes `&mut self`
    #[verifier::external_body]
    fn close(&mut self, error_code: QVarInt, reason: &[u8])
        ensures final(self).closes@ == old(self).closes@.push(error_code.v),
    { unimplemented!() }
    #[verifier::external_body]
    fn clone(&self) -> (r: QuicConnection) ensures r == *self { unimplemented!() }
}
#[verifier::external_body]
fn empty_reason() -> (r: &'static [u8]) ensures r@.len() == 0 { b"" }

uninterp spec fn session_feed(i: nat) -> Result<Frame, ProtoReadError>;
struct StreamSession { sid: SessionId, pos: Ghost<nat>, req: SessionRequestProto }
uninterp spec fn write_outcome(s: StreamSession) -> Result<(), ProtoWriteError>;
impl StreamSession {
    fn session_id(&self) -> (r: SessionId) ensures r == self.sid { self.sid }
    fn request(&self) -> (r: &SessionRequestProto) ensures *r == self.req { &self.req }
    #[verifier::external_body]
    fn write_frame(&mut self, frame: Frame) -> (r: Result<(), ProtoWriteError>)
        ensures r == write_outcome(*old(self)), *final(self) == *old(self),
    { unimplemented!() }
    #[verifier::external_body]
    fn read_frame(&mut self) -> (r: Result<Frame, ProtoReadError>)
        ensures r == session_feed(old(self).pos@), final(self).pos@ == old(self).pos@ + 1, final(self).sid == old(self).sid, final(self).req == old(self).req,
    { unimplemented!() }
    #[verifier::external_body]
    fn finish(&mut self) { unimplemented!() }
}

#[verifier::external_body]
struct Settings { x: u8 }
struct Driver { id: u64 }
// the driver `Driver::init` creates for this connection
uninterp spec fn the_driver() -> Driver;
uninterp spec fn accept_settings_outcome(d: Driver) -> Result<Settings, DriverError>;
uninterp spec fn open_session_outcome(d: Driver, r: SessionRequestProto) -> Result<StreamSession, DriverError>;
uninterp spec fn register_outcome(d: Driver, s: StreamSession) -> Result<(), DriverError>;
impl Driver {
    #[verifier::external_body]
    fn init(quic_connection: QuicConnection) -> (r: Driver) ensures r == the_driver() { unimplemented!() }
    #[verifier::external_body]
    fn accept_settings(&self) -> (r: Result<Settings, DriverError>) ensures r == accept_settings_outcome(*self) { unimplemented!() }
    #[verifier::external_body]
    fn open_session(&self, session_request: SessionRequestProto) -> (r: Result<StreamSession, DriverError>)
        ensures r == open_session_outcome(*self, session_request), r matches Ok(s) ==> s.req == session_request,
    { unimplemented!() }
    #[verifier::external_body]
    fn register_session(&self, stream_session: StreamSession) -> (r: Result<(), DriverError>) ensures r == register_outcome(*self, stream_session) { unimplemented!() }
}

struct Connection { quic_connection: QuicConnection, driver: Driver, session_id: SessionId }
impl Connection {
    fn new(quic_connection: QuicConnection, driver: Driver, session_id: SessionId) -> (r: Connection)
        ensures r == (Connection { quic_connection, driver, session_id })
    { Connection { quic_connection, driver, session_id } }
}

// the request built from the URL and the additional headers (SessionRequest::new + insert loop: the
// url crate and a HashMap iteration, outside Verus; reserved-header refusal is its only failure)
#[verifier::external_body]
struct ConnectInputs { x: u8 }
uninterp spec fn request_from(inputs: ConnectInputs) -> Result<SessionRequestProto, String>;
#[verifier::external_body]
fn build_request(inputs: ConnectInputs) -> (r: Result<SessionRequestProto, ConnectingError>)
    ensures
        match request_from(inputs) {
            Ok(req) => r == Ok::<SessionRequestProto, ConnectingError>(req),
            Err(k) => r == Err::<SessionRequestProto, ConnectingError>(ConnectingError::ReservedHeader(k)),
        },
{ unimplemented!() }

// ---- what the server's answer means (RFC 9220 / WebTransport draft 3) ---------------------------------
// GREASE frames before the response are skipped
spec fn resp_skips(res: Result<Frame, ProtoReadError>) -> bool { res matches Ok(f) && f.kind_spec() is Exercise }

// the verdict on the first non-GREASE read result: Ok(status) = a well-formed response
enum Verdict { Status(u16), LocalH3(ErrorCode), NoConnection }
spec fn response_verdict(res: Result<Frame, ProtoReadError>) -> Verdict {
    match res {
        Err(ProtoReadError::H3(e)) => Verdict::LocalH3(e),
        Err(ProtoReadError::IO(_)) => Verdict::NoConnection,
        Ok(frame) =>
            if frame.kind_spec() != FrameKind::Headers { Verdict::LocalH3(ErrorCode::FrameUnexpected) }
            else { match headers_of(frame) {
                Err(e) => Verdict::LocalH3(e),
                Ok(h) => match response_of(h) {
                    // missing / non-numeric / out-of-range status: malformed message
                    Err(_) => Verdict::LocalH3(ErrorCode::Message),
                    Ok(resp) => Verdict::Status(resp.status.0),
                },
            } },
    }
}

// after the request was written: GREASE frames feed[s0.pos..n) skipped, verdict on feed[n]
spec fn response_phase(s0: StreamSession, n: nat, r: Result<Connection, ConnectingError>, driver: Driver) -> bool {
    &&& n >= s0.pos@
    &&& forall|k: nat| s0.pos@ <= k < n ==> resp_skips(#[trigger] session_feed(k))
    &&& !resp_skips(session_feed(n))
    &&& match response_verdict(session_feed(n)) {
        Verdict::LocalH3(e) => r matches Err(ConnectingError::ConnectionError(ConnectionError::LocalH3Error(h))) && h.code == e,
        Verdict::NoConnection => r is Err && !(r matches Err(ConnectingError::SessionRejected)),
        Verdict::Status(st) =>
            if 200 <= st <= 299 {
                // accepted: a usable session with the stream's own session id - unless the
                // driver died meanwhile
                match register_outcome(driver, StreamSession { sid: s0.sid, pos: Ghost((n + 1) as nat), req: s0.req }) {
                    Ok(()) => r matches Ok(c) && c.session_id == s0.sid && c.driver == driver,
                    Err(_) => r is Err && !(r matches Err(ConnectingError::SessionRejected)),
                }
            } else {
                r matches Err(ConnectingError::SessionRejected)
            },
    }
}

spec fn connect_post(inputs: ConnectInputs, r: Result<Connection, ConnectingError>, driver: Driver) -> bool {
    match accept_settings_outcome(driver) {
        Err(_) => r is Err && !(r matches Err(ConnectingError::SessionRejected)),
        Ok(_) => match request_from(inputs) {
            Err(k) => r matches Err(ConnectingError::ReservedHeader(k2)) && k2 == k,
            Ok(req) => match open_session_outcome(driver, req) {
                Err(_) => r is Err && !(r matches Err(ConnectingError::SessionRejected)),
                Ok(s0) => match write_outcome(s0) {
                    // the server reset the request stream: rejected
                    Err(ProtoWriteError::Stopped) => r matches Err(ConnectingError::SessionRejected),
                    Err(ProtoWriteError::NotConnected) => r is Err && !(r matches Err(ConnectingError::SessionRejected)),
                    Ok(()) => exists|n: nat| #![trigger session_feed(n)] response_phase(s0, n, r, driver),
                },
            },
        },
    }
}

struct EndpointClient;
impl EndpointClient {
//@ extract wtransport/src/endpoint.rs >> impl Endpoint<endpoint_side::Client> >> fn connect
//@ deawait
//@ expand_matches
//@ break_value
//@ body_from `let driver = Driver::init(quic_connection.clone());`
//@ attr #[verifier::exec_allows_no_decreases_clause]
//@ subst `connect<O>(&self, options: O) -> Result<Connection, ConnectingError>
//@ |    where
//@ |        O: IntoConnectOptions,` => `connect_tail(quic_connection: QuicConnection, inputs: ConnectInputs) -> Result<Connection, ConnectingError>`
//@ substw `let mut session_request_proto = SessionRequestProto::new(url.as_ref()).expect("Url has been already validate"); for (k, v) in options.additional_headers { session_request_proto .insert(k.clone(), v) .map_err(|ReservedHeader| ConnectingError::ReservedHeader(k))?; }` => `let session_request_proto = build_request(inputs)?;`
//@ resub `b""` => `empty_reason()`
//@ substw `|driver_error| { ConnectingError::ConnectionError(ConnectionError::with_driver_error( driver_error, &quic_connection, )) }` => `|driver_error: DriverError| -> (o: ConnectingError) ensures o is ConnectionError { ConnectingError::ConnectionError(ConnectionError::with_driver_error(driver_error, &quic_connection)) }`
//@ prologue let mut quic_connection = quic_connection;
//@ loop 1 invariant stream_session.pos@ >= start_pos
//@ loop 1 invariant_except_break forall|k: nat| start_pos <= k < stream_session.pos@ ==> resp_skips(#[trigger] session_feed(k))
//@ loop 1 invariant driver == the_driver(), accept_settings_outcome(driver) is Ok, request_from(inputs) matches Ok(rq) && open_session_outcome(driver, rq) matches Ok(s0) && s0.pos@ == start_pos && s0.sid == stream_session.sid && s0.req == stream_session.req && write_outcome(s0) is Ok && session_id == s0.sid
//@ loop 1 ensures stream_session.pos@ > start_pos, session_feed((stream_session.pos@ - 1) as nat) == Ok::<Frame, ProtoReadError>(loop_value_frame), !resp_skips(session_feed((stream_session.pos@ - 1) as nat)), forall|k: nat| start_pos <= k < stream_session.pos@ - 1 ==> resp_skips(#[trigger] session_feed(k))
//@ insert_after `let session_id = stream_session.session_id();` => `let ghost start_pos: nat = stream_session.pos@;`
//@ ensures
//@ | connect_post(inputs, r, the_driver()),
//@ end
}

// ---- server side: answering a session request ---------------------------------------------------------
//@ extract wtransport/src/endpoint.rs >> struct SessionRequest
//@ rename `quinn::Connection` => `QuicConnection`
//@ end

#[verifier::external_body]
struct HeaderMap { x: u8 }
uninterp spec fn response_with(base: SessionResponseProto, extra: HeaderMap) -> SessionResponseProto;
// `for (key, value) in headers { response.add(key, value); }` (HashMap iteration, outside Verus)
#[verifier::external_body]
fn add_all(response: &mut SessionResponseProto, headers: HeaderMap)
    ensures *final(response) == response_with(*old(response), headers),
{ unimplemented!() }

impl SessionRequest {
// a response that cannot be written because the client stopped the request stream closes the
// connection with H3_CLOSED_CRITICAL_STREAM; a dead connection reports its own cause
//@ extract wtransport/src/endpoint.rs >> impl SessionRequest >> fn send_response
//@ deawait
//@ resub `b""` => `empty_reason()`
//@ ensures
//@ | final(self).driver == old(self).driver, final(self).stream_session == old(self).stream_session,
//@ | match write_outcome(old(self).stream_session) {
//@ |     Ok(()) => r is Ok && final(self).quic_connection == old(self).quic_connection,
//@ |     Err(ProtoWriteError::NotConnected) => r == Err::<(), ConnectionError>(ConnectionError::no_connect_spec(&old(self).quic_connection))
//@ |         && final(self).quic_connection == old(self).quic_connection,
//@ |     Err(ProtoWriteError::Stopped) => r == Err::<(), ConnectionError>(ConnectionError::LocalH3Error(H3Error { code: ErrorCode::ClosedCriticalStream }))
//@ |         && final(self).quic_connection.closes@ == old(self).quic_connection.closes@.push(ErrorCode::ClosedCriticalStream.code_spec()),
//@ | }
//@ end

// accepting answers 200 (+ the given fields) and yields a session with the request stream's own id
//@ extract wtransport/src/endpoint.rs >> impl SessionRequest >> fn accept_impl
//@ deawait
//@ mutself
//@ subst `headers: HashMap<String, String>,` => `headers: HeaderMap,`
//@ substw `for (key, value) in headers { response.add(key, value); }` => `add_all(&mut response, headers);`
//@ substw `.map_err(|driver_error| { ConnectionError::with_driver_error(driver_error, &self.quic_connection) })?` => `.map_err(|driver_error: DriverError| -> (o: ConnectionError) { ConnectionError::with_driver_error(driver_error, &self.quic_connection) })?`
//@ ensures
//@ | match write_outcome(self.stream_session) {
//@ |     Ok(()) => match register_outcome(self.driver, self.stream_session) {
//@ |         Ok(()) => r matches Ok(c) && c.session_id == self.stream_session.sid && c.driver == self.driver && c.quic_connection == self.quic_connection,
//@ |         Err(_) => r is Err,
//@ |     },
//@ |     Err(_) => r is Err,
//@ | }
//@ end
}

} // verus!

fn main() {}
