// Unit `capsule`: `Capsule::with_frame` and `CloseWebTransportSession::with_capsule` (C04, C11, C13)
// for DATA payloads of ANY length: a capsule is recognised iff the payload is
// varint(0x2843) varint(L) followed by at least L bytes (RFC 9297 §3.2), its value is exactly those
// L bytes; every other type - unknown, GREASE - and every truncation gives `None`; the close capsule
// is accepted iff 4 <= L <= 4 + 1024 and the reason is valid UTF-8, carries the big-endian code and
// the reason bytes unchanged, and every refusal is H3_DATAGRAM_ERROR.
use vstd::prelude::*;

verus! {

global size_of usize == 8;

spec const VARINT_MAX: u64 = 0x3fff_ffff_ffff_ffff;
spec fn varint_len_from_first(b: u8) -> int {
    if b / 64 == 0 { 1 } else if b / 64 == 1 { 2 } else if b / 64 == 2 { 4 } else { 8 }
}
spec fn varint_complete(s: Seq<u8>) -> bool { s.len() >= 1 && s.len() >= varint_len_from_first(s[0]) }
uninterp spec fn varint_val(s: Seq<u8>) -> u64;

//@ extract wtransport-proto/src/varint.rs >> struct VarInt
//@ end
impl VarInt {
    spec fn wf(self) -> bool { self.0 <= VARINT_MAX }
//@ extract wtransport-proto/src/varint.rs >> impl VarInt >> fn into_inner
//@ keepconst
//@ ensures r == self.0
//@ end
//@ extract wtransport-proto/src/varint.rs >> impl VarInt >> fn from_u32
//@ keepconst
//@ ensures r.0 == value as u64, r.wf()
//@ end
}

//@ extract wtransport-proto/src/error.rs >> enum ErrorCode
//@ end
//@ extract wtransport-proto/src/frame.rs >> enum FrameKind
//@ end

// assumed interface: `impl<'a> BytesReader<'a> for &'a [u8]` (Kani: p_slice_get_varint, p_readers_get_bytes)
trait BytesReader<'a> {
    spec fn remaining(&self) -> Seq<u8>;
    fn get_varint(&mut self) -> (r: Option<VarInt>)
        ensures
            match r {
                Some(v) => varint_complete(old(self).remaining()) && v.0 == varint_val(old(self).remaining()) && v.wf()
                    && final(self).remaining() == old(self).remaining().skip(varint_len_from_first(old(self).remaining()[0])),
                None => !varint_complete(old(self).remaining()) && final(self).remaining() == old(self).remaining(),
            };
    fn get_bytes(&mut self, len: usize) -> (r: Option<&'a [u8]>)
        ensures
            match r {
                Some(b) => len <= old(self).remaining().len() && b@ == old(self).remaining().take(len as int)
                    && final(self).remaining() == old(self).remaining().skip(len as int),
                None => len > old(self).remaining().len() && final(self).remaining() == old(self).remaining(),
            };
}

impl<'a> BytesReader<'a> for &'a [u8] {
    spec fn remaining(&self) -> Seq<u8> { (*self)@ }
    #[verifier::external_body]
    fn get_varint(&mut self) -> (r: Option<VarInt>) { unimplemented!() }
    #[verifier::external_body]
    fn get_bytes(&mut self, len: usize) -> (r: Option<&'a [u8]>) { unimplemented!() }
}

// frame.rs Frame (verified in unit `frame`): only kind() and payload() are used
#[verifier::external_body]
struct Frame<'a> {
    p: &'a [u8],
}

impl<'a> Frame<'a> {
    uninterp spec fn is_data(&self) -> bool;
    uninterp spec fn payload_view(&self) -> Seq<u8>;
    #[verifier::external_body]
    fn kind(&self) -> (r: FrameKind)
        ensures (r is Data) == self.is_data(),
    { unimplemented!() }
    #[verifier::external_body]
    fn payload(&self) -> (r: &[u8])
        ensures r@ == self.payload_view(),
    { unimplemented!() }
}

//@ extract wtransport-proto/src/capsule/mod.rs >> enum CapsuleKind
//@ end

// registry constant referenced by the external_body `CapsuleKind::parse`
//@ extract wtransport-proto/src/capsule/mod.rs >> mod capsule_types
//@ attr #[verifier::external]
//@ keepvis
//@ subst `use crate::varint::VarInt;` => `use super::VarInt;`
//@ end

impl CapsuleKind {
// Kani: c_capsulekind_parse (in-place contract on the real function, all 2^62 ids)
//@ extract wtransport-proto/src/capsule/mod.rs >> impl CapsuleKind >> fn parse
//@ attr #[verifier::external_body]
//@ ensures r is Some == (id.0 == 0x2843)
//@ nocanary
//@ end
}

//@ extract wtransport-proto/src/capsule/mod.rs >> struct Capsule
//@ end

// RFC 9297 §3.2 reference: Some(declared value bytes) iff a complete CLOSE_WEBTRANSPORT_SESSION capsule
// starts the payload
spec fn ref_capsule(s: Seq<u8>) -> Option<Seq<u8>> {
    if !varint_complete(s) {
        None
    } else if varint_val(s) != 0x2843 {
        None
    } else {
        let s2 = s.skip(varint_len_from_first(s[0]));
        if !varint_complete(s2) {
            None
        } else {
            let l = varint_val(s2);
            let s3 = s2.skip(varint_len_from_first(s2[0]));
            if l > s3.len() { None } else { Some(s3.take(l as int)) }
        }
    }
}

impl<'a> Capsule<'a> {
//@ extract wtransport-proto/src/capsule/mod.rs >> impl<'a> Capsule<'a> >> fn with_frame
//@ requires frame.is_data()
//@ ensures
//@ | match ref_capsule(frame.payload_view()) {
//@ |     Some(v) => r matches Some(c) && c.payload@ == v && c.kind is CloseWebTransportSession,
//@ |     None => r is None,
//@ | }
//@ end

//@ extract wtransport-proto/src/capsule/mod.rs >> impl<'a> Capsule<'a> >> fn kind
//@ ensures r == self.kind
//@ end

//@ extract wtransport-proto/src/capsule/mod.rs >> impl<'a> Capsule<'a> >> fn payload
//@ ensures r@ == self.payload@
//@ end
}

// ---- close_wt_session.rs -----------------------------------------------------------------------------
// assumed std: big-endian u32 from the first four bytes, UTF-8 validation + copy into a String
spec fn be32(s: Seq<u8>) -> u32 {
    ((s[0] as u32) * 0x100_0000 + (s[1] as u32) * 0x1_0000 + (s[2] as u32) * 0x100 + (s[3] as u32)) as u32
}
uninterp spec fn utf8_text(s: Seq<u8>) -> Option<Seq<char>>;

#[verifier::external_body]
fn be32_of_first_four(payload: &[u8]) -> (r: u32)
    requires payload@.len() >= 4,
    ensures r == be32(payload@),
{ unimplemented!() }

#[verifier::external_body]
fn utf8_to_string(payload: &[u8], from: usize) -> (r: Result<String, ErrorCode>)
    requires from <= payload@.len(),
    ensures
        match utf8_text(payload@.skip(from as int)) {
            Some(t) => r matches Ok(st) && st@ == t,
            None => r matches Err(e) && e == ErrorCode::Datagram,
        },
{ unimplemented!() }

//@ extract wtransport-proto/src/capsule/close_wt_session.rs >> struct CloseWebTransportSession
//@ end

impl CloseWebTransportSession {
// R8: `u32::from_be_bytes(payload[..4].try_into().expect(..))` and
// `std::str::from_utf8(&payload[4..]).map_err(|_| ErrorCode::Datagram)?.to_string()` are replaced by
// the two helpers above (slice-to-array conversion and str handling have no Verus specification)
//@ extract wtransport-proto/src/capsule/close_wt_session.rs >> impl CloseWebTransportSession >> fn with_capsule
//@ substw `u32::from_be_bytes(payload[..4].try_into().expect("4B to u32 should succeed"))` => `be32_of_first_four(payload)`
//@ substw `std::str::from_utf8(&payload[4..]) .map_err(|_| ErrorCode::Datagram)? .to_string()` => `utf8_to_string(payload, 4)?`
//@ requires capsule.kind is CloseWebTransportSession
//@ ensures
//@ | r is Ok <==> 4 <= capsule.payload@.len() <= 4 + 1024 && utf8_text(capsule.payload@.skip(4)) is Some,
//@ | r matches Ok(c) ==> c.error_code == be32(capsule.payload@) && Some(c.reason@) == utf8_text(capsule.payload@.skip(4)),
//@ | r matches Err(e) ==> e == ErrorCode::Datagram
//@ end

//@ extract wtransport-proto/src/capsule/close_wt_session.rs >> impl CloseWebTransportSession >> fn error_code
//@ ensures r.0 == self.error_code as u64
//@ end
}

} // verus!

fn main() {}
