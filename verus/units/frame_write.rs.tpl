// Unit `frame_write`: `Frame::{write, write_size, write_to_buffer, write_async}` (C14, C16, C01) for
// frames with payloads of ANY length: the bytes emitted are exactly
//   varint(type) varint(session id)                    for the WebTransport signal,
//   varint(type) varint(payload length) payload        otherwise            (RFC 9114 §7.1)
// `write_size` is their exact number, `write_to_buffer` is all-or-nothing, `write` succeeds iff the
// destination has room, the async path emits the same bytes (sequential composition, rewrite R9).
use vstd::prelude::*;
use std::borrow::Cow;

verus! {

//@ include _frame_common.inc

// RFC 9000 §16 shortest encoding, abstract: its length is all this unit needs (the concrete bytes,
// and that the four real writers emit them, are Kani's p_buffer_writer_put_varint / p_vec_put_varint
// / p_put_varint_poll_step)
uninterp spec fn varint_enc(v: u64) -> Seq<u8>;

spec fn varint_len(v: u64) -> int {
    if v < 0x40 { 1 } else if v < 0x4000 { 2 } else if v < 0x4000_0000 { 4 } else { 8 }
}

#[verifier::external_body]
proof fn axiom_varint_enc_len(v: u64)
    ensures varint_enc(v).len() == varint_len(v),
{
}

#[derive(Debug)]
struct EndOfBuffer;

// Assumed interface: bytes.rs `BytesWriter` with ghost views of the bytes written so far and of
// the room left (Kani: p_buffer_writer_put_varint, p_buffer_writer_put_bytes, p_vec_put_varint,
// p_vec_put_bytes: all-or-nothing, Ok iff it fits)
trait BytesWriter {
    spec fn written(&self) -> Seq<u8>;
    spec fn room(&self) -> int;

    fn put_varint(&mut self, varint: VarInt) -> (r: Result<(), EndOfBuffer>)
        requires varint.wf(),
        ensures
            r is Ok <==> old(self).room() >= varint_len(varint.0),
            r is Ok ==> final(self).written() == old(self).written() + varint_enc(varint.0)
                && final(self).room() == old(self).room() - varint_len(varint.0),
            r is Err ==> final(self).written() == old(self).written() && final(self).room() == old(self).room();

    fn put_bytes(&mut self, bytes: &[u8]) -> (r: Result<(), EndOfBuffer>)
        ensures
            r is Ok <==> old(self).room() >= bytes@.len(),
            r is Ok ==> final(self).written() == old(self).written() + bytes@
                && final(self).room() == old(self).room() - bytes@.len(),
            r is Err ==> final(self).written() == old(self).written() && final(self).room() == old(self).room();
}

// bytes.rs BufferWriter: a BytesWriter whose room is its capacity
#[verifier::external_body]
struct BufferWriter<'a> {
    b: &'a mut [u8],
}

impl<'a> BufferWriter<'a> {
    #[verifier::external_body]
    fn capacity(&self) -> (r: usize)
        ensures r == self.room(),
    {
        unimplemented!()
    }
}

impl<'a> BytesWriter for BufferWriter<'a> {
    uninterp spec fn written(&self) -> Seq<u8>;
    uninterp spec fn room(&self) -> int;

    #[verifier::external_body]
    fn put_varint(&mut self, varint: VarInt) -> (r: Result<(), EndOfBuffer>)
    {
        unimplemented!()
    }

    #[verifier::external_body]
    fn put_bytes(&mut self, bytes: &[u8]) -> (r: Result<(), EndOfBuffer>)
    {
        unimplemented!()
    }
}

// the completed leaf futures of `BytesWriterAsync` on a healthy sink (Kani: p_put_varint_poll_step,
// p_put_buffer_poll_step)
//@ extract wtransport-proto/src/bytes.rs >> mod r#async >> enum IoWriteError
//@ end

trait AsyncWriter {
    spec fn written(&self) -> Seq<u8>;

    fn put_varint(&mut self, varint: VarInt) -> (r: Result<(), IoWriteError>)
        requires varint.wf(),
        ensures r is Ok ==> final(self).written() == old(self).written() + varint_enc(varint.0);

    fn put_buffer(&mut self, buffer: &[u8]) -> (r: Result<(), IoWriteError>)
        ensures r is Ok ==> final(self).written() == old(self).written() + buffer@;
}

#[verifier::external_body]
fn cow_as_slice<'b>(c: &'b Cow<'_, [u8]>) -> (r: &'b [u8])
    ensures r@ == c@,
{
    c
}

impl VarInt {
//@ extract wtransport-proto/src/varint.rs >> impl VarInt >> fn try_from_u64
//@ rename `Self::MAX.0` => `4_611_686_018_427_387_903`
//@ ensures
//@ | match r { Ok(v) => value <= VARINT_MAX && v.0 == value && v.wf(), Err(_) => value > VARINT_MAX }
//@ end

//@ extract wtransport-proto/src/varint.rs >> impl VarInt >> fn size
//@ requires self.wf()
//@ ensures r as int == varint_len(self.0), 1 <= r <= 8
//@ end
}

impl StreamId {
//@ extract wtransport-proto/src/ids.rs >> impl StreamId >> fn into_varint
//@ ensures r == self.0
//@ end
}

impl SessionId {
//@ extract wtransport-proto/src/ids.rs >> impl SessionId >> fn into_varint
//@ ensures r == self.0.0
//@ end
}

impl FrameKind {
// Kani: c_framekind_id (registry value of the kind, all kinds)
//@ extract wtransport-proto/src/frame.rs >> impl FrameKind >> fn id
//@ attr #[verifier::external_body]
//@ requires self matches FrameKind::Exercise(x) ==> is_grease(x.0) && x.wf()
//@ ensures r.0 == self.code(), r.wf()
//@ nocanary
//@ end
}

// the wire image of a frame
spec fn frame_wire(f: Frame<'_>) -> Seq<u8> {
    if f.kind is WebTransport {
        varint_enc(f.kind.code()) + varint_enc(f.session_id->0.val())
    } else {
        varint_enc(f.kind.code()) + varint_enc(f.payload@.len() as u64) + f.payload@
    }
}

impl<'a> Frame<'a> {
    spec fn wfx(self) -> bool {
        self.wf() && (self.kind matches FrameKind::Exercise(x) ==> x.wf())
    }

// `matches!(..).then(|| ..)`: bool::then with a closure has no vstd spec; the getter is taken by
// contract (Kani: same_frame / p_frame_write_roundtrip_* check it on the real function)
//@ extract wtransport-proto/src/frame.rs >> impl<'a> Frame<'a> >> fn session_id
//@ opaque_closures 1
//@ attr #[verifier::external_body]
//@ requires self.wf()
//@ ensures r == (if self.kind is WebTransport { self.session_id } else { None::<SessionId> })
//@ nocanary
//@ end

//@ extract wtransport-proto/src/frame.rs >> impl<'a> Frame<'a> >> fn write_size
//@ substw `VarInt::try_from(self.payload.len() as u64)` => `VarInt::try_from_u64(cow_len(&self.payload) as u64)`
//@ subst `+ self.payload.len()` => `+ cow_len(&self.payload)`
//@ prologue proof { axiom_varint_enc_len(self.kind.code()); axiom_varint_enc_len(self.payload@.len() as u64); if self.kind is WebTransport { axiom_varint_enc_len(self.session_id->0.val()); } }
//@ requires self.wfx(), self.payload@.len() <= 0x7fff_ffff_ffff_0000
//@ ensures r == frame_wire(*self).len()
//@ end

//@ extract wtransport-proto/src/frame.rs >> impl<'a> Frame<'a> >> fn write
//@ substw `VarInt::try_from(self.payload.len() as u64)` => `VarInt::try_from_u64(cow_len(&self.payload) as u64)`
//@ subst `bytes_writer.put_bytes(&self.payload)?` => `bytes_writer.put_bytes(cow_as_slice(&self.payload))?`
//@ prologue proof { axiom_varint_enc_len(self.kind.code()); axiom_varint_enc_len(self.payload@.len() as u64); if self.kind is WebTransport { axiom_varint_enc_len(self.session_id->0.val()); } }
//@ requires self.wfx()
//@ ensures
//@ | r is Ok <==> old(bytes_writer).room() >= frame_wire(*self).len(),
//@ | r is Ok ==> final(bytes_writer).written() == old(bytes_writer).written() + frame_wire(*self)
//@ end

//@ extract wtransport-proto/src/frame.rs >> impl<'a> Frame<'a> >> fn write_to_buffer
//@ requires self.wfx(), self.payload@.len() <= 0x7fff_ffff_ffff_0000
//@ ensures
//@ | r is Ok <==> old(buffer_writer).room() >= frame_wire(*self).len(),
//@ | r is Ok ==> final(buffer_writer).written() == old(buffer_writer).written() + frame_wire(*self),
//@ | r is Err ==> final(buffer_writer).written() == old(buffer_writer).written() && final(buffer_writer).room() == old(buffer_writer).room()
//@ end

//@ extract wtransport-proto/src/frame.rs >> impl<'a> Frame<'a> >> fn write_async
//@ subst `async fn` => `fn`
//@ subst `W: AsyncWrite + Unpin + ?Sized,` => `W: AsyncWriter,`
//@ subst `use crate::bytes::BytesWriterAsync;` => ``
//@ subst `.await` => `` x4
//@ rename `Result<(), IoWriteError>` => `Result<(), IoWriteError>`
//@ substw `VarInt::try_from(self.payload.len() as u64)` => `VarInt::try_from_u64(cow_len(&self.payload) as u64)`
//@ subst `writer.put_buffer(&self.payload)?` => `writer.put_buffer(cow_as_slice(&self.payload))?`
//@ requires self.wfx()
//@ ensures r is Ok ==> final(writer).written() == old(writer).written() + frame_wire(*self)
//@ end
}

// ---------------------------------------------------------------------------------------------
// The WebTransport stream preamble on the SEND side (C01, C16): `StreamHeader::{write, write_size,
// write_async}` and the local upgrades of stream.rs - sync and async (the driver uses the async
// ones) - emit exactly varint(0x54) varint(session id) resp. varint(0x41) varint(session id), and
// the resulting WT typestate carries that session id.
// ---------------------------------------------------------------------------------------------
//@ include _stream_common.inc

//@ extract wtransport-proto/src/stream.rs >> mod types >> struct UniLocal
//@ end
//@ extract wtransport-proto/src/stream.rs >> mod types >> struct Quic
//@ end
//@ extract wtransport-proto/src/stream.rs >> mod types >> struct WT
//@ end

impl WT {
//@ extract wtransport-proto/src/stream.rs >> mod types >> impl WT >> fn new
//@ ensures r.session_id == session_id
//@ end
}

impl H3 {
//@ extract wtransport-proto/src/stream.rs >> mod types >> impl H3 >> fn new
//@ ensures r.stream_header == stream_header, r.first_frame_done == false
//@ end
}

impl StreamKind {
    spec fn code(self) -> u64 {
        match self {
            StreamKind::Control => 0x00,
            StreamKind::QPackEncoder => 0x02,
            StreamKind::QPackDecoder => 0x03,
            StreamKind::WebTransport => 0x54,
            StreamKind::Exercise(id) => id.0,
        }
    }

// Kani: c_streamkind_id
//@ extract wtransport-proto/src/stream_header.rs >> impl StreamKind >> fn id
//@ attr #[verifier::external_body]
//@ requires self matches StreamKind::Exercise(x) ==> x.wf()
//@ ensures r.0 == self.code(), r.wf()
//@ nocanary
//@ end
}

// registry constants referenced by the external_body `StreamKind::id` (Kani: p_streamkind_id_parse_inverse)
//@ extract wtransport-proto/src/stream_header.rs >> mod stream_type_ids
//@ attr #[verifier::external]
//@ keepvis
//@ subst `use crate::varint::VarInt;` => `use super::VarInt;`
//@ end

spec fn header_wire(h: StreamHeader) -> Seq<u8> {
    if h.kind is WebTransport {
        varint_enc(h.kind.code()) + varint_enc(h.session_id->0.val())
    } else {
        varint_enc(h.kind.code())
    }
}

impl StreamHeader {
    spec fn wf(self) -> bool {
        &&& (self.kind is WebTransport <==> self.session_id is Some)
        &&& (self.session_id matches Some(s) ==> s.wf())
        &&& (self.kind matches StreamKind::Exercise(id) ==> id.wf())
    }

// `matches!(..).then(|| ..)`: taken by contract (Kani: same_header / p_stream_header_write_roundtrip)
//@ extract wtransport-proto/src/stream_header.rs >> impl StreamHeader >> fn session_id
//@ opaque_closures 1
//@ attr #[verifier::external_body]
//@ requires self.wf()
//@ ensures r == self.session_id
//@ nocanary
//@ end

//@ extract wtransport-proto/src/stream_header.rs >> impl StreamHeader >> fn new_webtransport
//@ subst `Self::new(StreamKind::WebTransport, Some(session_id))` => `StreamHeader { kind: StreamKind::WebTransport, session_id: Some(session_id) }`
//@ requires session_id.wf()
//@ ensures r.kind is WebTransport, r.session_id == Some(session_id), r.wf()
//@ end

//@ extract wtransport-proto/src/stream_header.rs >> impl StreamHeader >> fn write_size
//@ prologue proof { axiom_varint_enc_len(self.kind.code()); if self.kind is WebTransport { axiom_varint_enc_len(self.session_id->0.val()); } }
//@ requires self.wf()
//@ ensures r == header_wire(*self).len(), r <= 16
//@ end

//@ extract wtransport-proto/src/stream_header.rs >> impl StreamHeader >> fn write
//@ prologue proof { axiom_varint_enc_len(self.kind.code()); if self.kind is WebTransport { axiom_varint_enc_len(self.session_id->0.val()); } }
//@ requires self.wf()
//@ ensures
//@ | r is Ok <==> old(bytes_writer).room() >= header_wire(*self).len(),
//@ | r is Ok ==> final(bytes_writer).written() == old(bytes_writer).written() + header_wire(*self)
//@ end

//@ extract wtransport-proto/src/stream_header.rs >> impl StreamHeader >> fn write_async
//@ subst `async fn` => `fn`
//@ subst `W: AsyncWrite + Unpin + ?Sized,` => `W: AsyncWriter,`
//@ subst `use crate::bytes::BytesWriterAsync;` => ``
//@ subst `.await` => `` x2
//@ requires self.wf()
//@ ensures r is Ok ==> final(writer).written() == old(writer).written() + header_wire(*self)
//@ end
}

impl Stream<BiLocal, H3> {
//@ extract wtransport-proto/src/stream.rs >> mod bilocal >> impl StreamBiLocalH3 >> fn upgrade_size
//@ prologue proof { axiom_varint_enc_len(0x41); axiom_varint_enc_len(session_id.val()); }
//@ requires session_id.wf()
//@ ensures r == varint_len(0x41) + varint_len(session_id.val()), r == 2 + varint_len(session_id.val())
//@ end

//@ extract wtransport-proto/src/stream.rs >> mod bilocal >> impl StreamBiLocalH3 >> fn upgrade
//@ resub `\(mut self\b` => `(self`
//@ resub `self\.stage\.set_first_frame\(\)` => `this.stage.set_first_frame()`
//@ resub `kind: self\.kind` => `kind: this.kind`
//@ rename `StreamBiLocalWT` => `Stream::<BiLocal, WT>`
//@ rename `-> Stream::<BiLocal, WT>` => `-> Stream<BiLocal, WT>`
//@ prologue let mut this = self; proof { axiom_varint_enc_len(0x41); axiom_varint_enc_len(session_id.val()); }
//@ requires session_id.wf(), !self.stage.first_frame_done, old(bytes_writer).room() >= 2 + varint_len(session_id.val())
//@ ensures
//@ | final(bytes_writer).written() == old(bytes_writer).written() + (varint_enc(0x41) + varint_enc(session_id.val())),
//@ | r.stage.session_id == session_id
//@ end

//@ extract wtransport-proto/src/stream.rs >> mod bilocal >> impl StreamBiLocalH3 >> fn upgrade_async
//@ subst `async fn` => `fn`
//@ subst `W: AsyncWrite + Unpin + ?Sized,` => `W: AsyncWriter,`
//@ substw `.write_async(writer) .await?;` => `.write_async(writer)?;`
//@ resub `\(\s*mut self\b` => `(self`
//@ resub `self\.stage\.set_first_frame\(\)` => `this.stage.set_first_frame()`
//@ resub `kind: self\.kind` => `kind: this.kind`
//@ rename `Result<StreamBiLocalWT, IoWriteError>` => `Result<Stream<BiLocal, WT>, IoWriteError>`
//@ rename `Ok(StreamBiLocalWT {` => `Ok(Stream::<BiLocal, WT> {`
//@ prologue let mut this = self;
//@ requires session_id.wf(), !self.stage.first_frame_done
//@ ensures
//@ | r matches Ok(wt) ==> final(writer).written() == old(writer).written() + (varint_enc(0x41) + varint_enc(session_id.val()))
//@ |     && wt.stage.session_id == session_id
//@ end
}

impl Stream<UniLocal, Quic> {
//@ extract wtransport-proto/src/stream.rs >> mod unilocal >> impl StreamUniLocalQuic >> fn upgrade
//@ rename `-> StreamUniLocalH3` => `-> Stream<UniLocal, H3>`
//@ rename `StreamUniLocalH3 {` => `Stream::<UniLocal, H3> {`
//@ requires stream_header.wf(), old(bytes_writer).room() >= header_wire(stream_header).len()
//@ ensures
//@ | final(bytes_writer).written() == old(bytes_writer).written() + header_wire(stream_header),
//@ | r.stage.stream_header == Some(stream_header)
//@ end

//@ extract wtransport-proto/src/stream.rs >> mod unilocal >> impl StreamUniLocalQuic >> fn upgrade_async
//@ subst `async fn` => `fn`
//@ subst `W: AsyncWrite + Unpin + ?Sized,` => `W: AsyncWriter,`
//@ subst `.await` => ``
//@ rename `Result<StreamUniLocalH3, IoWriteError>` => `Result<Stream<UniLocal, H3>, IoWriteError>`
//@ rename `Ok(StreamUniLocalH3 {` => `Ok(Stream::<UniLocal, H3> {`
//@ requires stream_header.wf()
//@ ensures
//@ | r matches Ok(h3) ==> final(writer).written() == old(writer).written() + header_wire(stream_header)
//@ |     && h3.stage.stream_header == Some(stream_header)
//@ end
}

} // verus!

fn main() {}
