// Unit `stream_header`: `StreamHeader::read` (one-shot), `StreamHeader::read_async` and
// `uniremote::upgrade` / `upgrade_async` (C01, C11, C12, C15) against the reference parse of a
// unidirectional stream header, for inputs of ANY length; async functions as sequential compositions
// of their awaits (see unit `frame_async`).
use vstd::prelude::*;
use std::borrow::Cow;

verus! {

//@ include _frame_common.inc
//@ include _async_common.inc

spec fn stream_type_known(id: u64) -> bool { id == 0x00 || id == 0x02 || id == 0x03 || id == 0x54 }

enum RefHeader {
    NeedMore,
    Unknown,
    InvalidSessionId,
    Header { kind: u64, session: Option<u64>, consumed: int },
}

// RFC 9114 §6.2 (stream type varint) + WT draft §4.1 (0x54 followed by the session id varint)
spec fn ref_header(s: Seq<u8>) -> RefHeader {
    if !varint_complete(s) {
        RefHeader::NeedMore
    } else {
        let n1 = varint_len_from_first(s[0]);
        let t = varint_val(s);
        if !stream_type_known(t) && !is_grease(t) {
            RefHeader::Unknown
        } else if t != 0x54 {
            RefHeader::Header { kind: t, session: None, consumed: n1 }
        } else {
            let s2 = s.skip(n1);
            if !varint_complete(s2) {
                RefHeader::NeedMore
            } else {
                let n2 = varint_len_from_first(s2[0]);
                let sid = varint_val(s2);
                if sid % 4 != 0 { RefHeader::InvalidSessionId } else { RefHeader::Header { kind: t, session: Some(sid), consumed: n1 + n2 } }
            }
        }
    }
}

//@ extract wtransport-proto/src/stream_header.rs >> enum ParseError
//@ subst `enum ParseError` => `enum HeaderParseError`
//@ end

//@ extract wtransport-proto/src/stream_header.rs >> enum IoReadError
//@ subst `enum IoReadError` => `enum HeaderIoReadError`
//@ subst `Parse(ParseError)` => `Parse(HeaderParseError)`
//@ subst `IO(bytes::IoReadError)` => `IO(BytesIoReadError)`
//@ end

//@ extract wtransport-proto/src/stream_header.rs >> impl From<bytes::IoReadError> for IoReadError >> fn from
//@ subst `fn from(io_error: bytes::IoReadError) -> Self` => `fn header_io_read_error_from(io_error: BytesIoReadError) -> HeaderIoReadError`
//@ rename `IoReadError::IO` => `HeaderIoReadError::IO`
//@ ensures r == HeaderIoReadError::IO(io_error)
//@ end

//@ extract wtransport-proto/src/stream_header.rs >> enum StreamKind
//@ end

//@ extract wtransport-proto/src/stream_header.rs >> mod stream_type_ids
//@ attr #[verifier::external]
//@ keepvis
//@ subst `use crate::varint::VarInt;` => `use super::VarInt;`
//@ end

impl StreamKind {
    spec fn code(self) -> u64 {
        match self {
            StreamKind::Control => 0x00,
            StreamKind::QPackEncoder => 0x02,
            StreamKind::QPackDecoder => 0x03,
            StreamKind::WebTransport => 0x54,
            StreamKind::Exercise(id) => id.0,
        }
    }

    spec fn parse_post(id: u64, r: Option<StreamKind>) -> bool {
        match r {
            Some(StreamKind::Control) => id == 0x00,
            Some(StreamKind::QPackEncoder) => id == 0x02,
            Some(StreamKind::QPackDecoder) => id == 0x03,
            Some(StreamKind::WebTransport) => id == 0x54,
            Some(StreamKind::Exercise(x)) => is_grease(id) && x.0 == id && !stream_type_known(id),
            None => !stream_type_known(id) && !is_grease(id),
        }
    }

// contracts proved by Kani on the real functions for all 2^62 ids (c_streamkind_is_id_exercise,
// c_streamkind_parse)
//@ extract wtransport-proto/src/stream_header.rs >> impl StreamKind >> fn is_id_exercise
//@ attr #[verifier::external_body]
//@ ensures r == is_grease(id.0)
//@ nocanary
//@ end

//@ extract wtransport-proto/src/stream_header.rs >> impl StreamKind >> fn parse
//@ attr #[verifier::external_body]
//@ ensures StreamKind::parse_post(id.0, r)
//@ nocanary
//@ end
}

//@ extract wtransport-proto/src/stream_header.rs >> struct StreamHeader
//@ end

impl StreamHeader {
    spec fn wf(self) -> bool {
        &&& (self.kind is WebTransport <==> self.session_id is Some)
        &&& (self.session_id matches Some(s) ==> s.wf())
        &&& (self.kind matches StreamKind::Exercise(id) ==> is_grease(id.0))
    }

    spec fn matches_ref(self, h: RefHeader) -> bool {
        &&& h matches RefHeader::Header { kind, session, consumed }
        &&& self.kind.code() == kind
        &&& (session matches Some(s) ==> self.session_id is Some && self.session_id->0.val() == s)
        &&& (session is None ==> self.session_id is None)
        &&& self.wf()
    }

//@ extract wtransport-proto/src/stream_header.rs >> impl StreamHeader >> fn new
//@ requires
//@ | kind is WebTransport <==> session_id is Some,
//@ | session_id matches Some(s) ==> s.wf(),
//@ | kind matches StreamKind::Exercise(id) ==> is_grease(id.0)
//@ ensures r.kind == kind, r.session_id == session_id, r.wf()
//@ end

//@ extract wtransport-proto/src/stream_header.rs >> impl StreamHeader >> fn read
//@ rename `ParseError` => `HeaderParseError`
//@ subst `|InvalidSessionId| HeaderParseError::InvalidSessionId` => `|_e: InvalidSessionId| -> (o: HeaderParseError) ensures o == HeaderParseError::InvalidSessionId { HeaderParseError::InvalidSessionId }`
//@ prologue let ghost s0 = bytes_reader.remaining();
//@ insert_before `Ok(Some(Self::new(kind, session_id)))` => `proof { if varint_complete(s0) && varint_complete(s0.skip(varint_len_from_first(s0[0]))) { lemma_skip_skip(s0, varint_len_from_first(s0[0]), varint_len_from_first(s0.skip(varint_len_from_first(s0[0]))[0])); } }`
//@ ensures
//@ | match ref_header(old(bytes_reader).remaining()) {
//@ |     RefHeader::NeedMore => r matches Ok(None),
//@ |     RefHeader::Unknown => r matches Err(HeaderParseError::UnknownStream),
//@ |     RefHeader::InvalidSessionId => r matches Err(HeaderParseError::InvalidSessionId),
//@ |     RefHeader::Header { kind, session, consumed } => r matches Ok(Some(h)) && h.matches_ref(ref_header(old(bytes_reader).remaining()))
//@ |         && final(bytes_reader).remaining() == old(bytes_reader).remaining().skip(consumed),
//@ | }
//@ end

//@ extract wtransport-proto/src/stream_header.rs >> impl StreamHeader >> fn read_async
//@ subst `async fn` => `fn`
//@ subst `R: AsyncRead + Unpin + ?Sized,` => `R: AsyncReader,`
//@ subst `use crate::bytes::BytesReaderAsync;` => ``
//@ rename `bytes::IoReadError` => `BytesIoReadError`
//@ rename `IoReadError::Parse` => `HeaderIoReadError::Parse`
//@ rename `Result<Self, IoReadError>` => `Result<Self, HeaderIoReadError>`
//@ rename `ParseError::` => `HeaderParseError::`
//@ resub `\|e\|\s*match e\s*\{\s*BytesIoReadError::ImmediateFin\s*=>\s*BytesIoReadError::UnexpectedFin,\s*_\s*=>\s*e,\s*\}\)\?` => `|e: BytesIoReadError| -> (o: BytesIoReadError) ensures o == fin_remap(e) { match e { BytesIoReadError::ImmediateFin => BytesIoReadError::UnexpectedFin, _ => e, } }).map_err(|e: BytesIoReadError| -> (o: HeaderIoReadError) ensures o == HeaderIoReadError::IO(e) { header_io_read_error_from(e) })?`
//@ resub `\s*\.await\?` => `.map_err(|e: BytesIoReadError| -> (o: HeaderIoReadError) ensures o == HeaderIoReadError::IO(e) { header_io_read_error_from(e) })?`
//@ resub `\s*\.await\b` => ``
//@ subst `|InvalidSessionId| HeaderIoReadError::Parse(HeaderParseError::InvalidSessionId)` => `|_e: InvalidSessionId| -> (o: HeaderIoReadError) ensures o == HeaderIoReadError::Parse(HeaderParseError::InvalidSessionId) { HeaderIoReadError::Parse(HeaderParseError::InvalidSessionId) }`
//@ prologue let ghost s0 = reader.remaining();
//@ insert_before `Ok(Self::new(kind, session_id))` => `proof { if varint_complete(s0) && varint_complete(s0.skip(varint_len_from_first(s0[0]))) { lemma_skip_skip(s0, varint_len_from_first(s0[0]), varint_len_from_first(s0.skip(varint_len_from_first(s0[0]))[0])); } }`
//@ ensures
//@ | match ref_header(old(reader).remaining()) {
//@ |     RefHeader::NeedMore => r matches Err(HeaderIoReadError::IO(e))
//@ |         && e == (if old(reader).remaining().len() == 0 { BytesIoReadError::ImmediateFin } else { BytesIoReadError::UnexpectedFin }),
//@ |     RefHeader::Unknown => r matches Err(HeaderIoReadError::Parse(HeaderParseError::UnknownStream)),
//@ |     RefHeader::InvalidSessionId => r matches Err(HeaderIoReadError::Parse(HeaderParseError::InvalidSessionId)),
//@ |     RefHeader::Header { kind, session, consumed } => r matches Ok(h) && h.matches_ref(ref_header(old(reader).remaining()))
//@ |         && final(reader).remaining() == old(reader).remaining().skip(consumed),
//@ | }
//@ end
}

// ---- stream.rs: uniremote::upgrade / upgrade_async ---------------------------------------------
//@ extract wtransport-proto/src/error.rs >> enum ErrorCode
//@ end

//@ extract wtransport-proto/src/stream.rs >> enum IoReadError
//@ subst `enum IoReadError` => `enum StreamIoReadError`
//@ subst `IO(bytes::IoReadError)` => `IO(BytesIoReadError)`
//@ end

//@ extract wtransport-proto/src/stream.rs >> struct Stream
//@ end
//@ extract wtransport-proto/src/stream.rs >> mod types >> struct Uni
//@ end
//@ extract wtransport-proto/src/stream.rs >> mod types >> struct Remote
//@ end
//@ extract wtransport-proto/src/stream.rs >> mod types >> struct UniRemote
//@ end
//@ extract wtransport-proto/src/stream.rs >> mod types >> struct Quic
//@ end
//@ extract wtransport-proto/src/stream.rs >> mod types >> struct H3
//@ end

impl H3 {
//@ extract wtransport-proto/src/stream.rs >> mod types >> impl H3 >> fn new
//@ ensures r.stream_header == stream_header, r.first_frame_done == false
//@ end
}

//@ extract wtransport-proto/src/stream.rs >> mod uniremote >> enum MaybeUpgradeH3
//@ rename `StreamUniRemoteQuic` => `Stream<UniRemote, Quic>`
//@ rename `StreamUniRemoteH3` => `Stream<UniRemote, H3>`
//@ end

impl Stream<UniRemote, Quic> {
//@ extract wtransport-proto/src/stream.rs >> mod uniremote >> impl StreamUniRemoteQuic >> fn upgrade
//@ rename `stream_header::ParseError` => `HeaderParseError`
//@ rename `StreamUniRemoteH3` => `Stream::<UniRemote, H3>`
//@ ensures
//@ | match ref_header(old(bytes_reader).remaining()) {
//@ |     RefHeader::NeedMore => r matches Ok(MaybeUpgradeH3::Quic(_)),
//@ |     RefHeader::Unknown => r matches Err(ErrorCode::StreamCreation),
//@ |     RefHeader::InvalidSessionId => r matches Err(ErrorCode::Id),
//@ |     RefHeader::Header { kind, session, consumed } => r matches Ok(MaybeUpgradeH3::H3(s))
//@ |         && s.stage.stream_header is Some && s.stage.stream_header->0.matches_ref(ref_header(old(bytes_reader).remaining()))
//@ |         && !s.stage.first_frame_done
//@ |         && final(bytes_reader).remaining() == old(bytes_reader).remaining().skip(consumed),
//@ | }
//@ end

//@ extract wtransport-proto/src/stream.rs >> mod uniremote >> impl StreamUniRemoteQuic >> fn upgrade_async
//@ subst `async fn` => `fn`
//@ subst `R: AsyncRead + Unpin + ?Sized,` => `R: AsyncReader,`
//@ subst `.await` => ``
//@ rename `stream_header::IoReadError` => `HeaderIoReadError`
//@ rename `stream_header::ParseError` => `HeaderParseError`
//@ rename `bytes::IoReadError` => `BytesIoReadError`
//@ rename `Result<StreamUniRemoteH3, IoReadError>` => `Result<Stream<UniRemote, H3>, StreamIoReadError>`
//@ rename `StreamUniRemoteH3 {` => `Stream::<UniRemote, H3> {`
//@ rename `Err(IoReadError::` => `Err(StreamIoReadError::`
//@ ensures
//@ | match ref_header(old(reader).remaining()) {
//@ |     RefHeader::NeedMore => if old(reader).remaining().len() == 0 {
//@ |             r matches Err(StreamIoReadError::IO(BytesIoReadError::ImmediateFin))
//@ |         } else {
//@ |             r matches Err(StreamIoReadError::H3(ErrorCode::Frame))
//@ |         },
//@ |     RefHeader::Unknown => r matches Err(StreamIoReadError::H3(ErrorCode::StreamCreation)),
//@ |     RefHeader::InvalidSessionId => r matches Err(StreamIoReadError::H3(ErrorCode::Id)),
//@ |     RefHeader::Header { kind, session, consumed } => r matches Ok(s)
//@ |         && s.stage.stream_header is Some && s.stage.stream_header->0.matches_ref(ref_header(old(reader).remaining()))
//@ |         && !s.stage.first_frame_done
//@ |         && final(reader).remaining() == old(reader).remaining().skip(consumed),
//@ | }
//@ end
}

} // verus!

fn main() {}
