// Unit `cancel_safety` (C05): no byte of a partially received frame is lost when the future reading
// it is dropped. Every control-plane read of the driver (`RemoteSettingsStream::run`, `ConnectStream::run`
// through `Stream*::read_frame_async`) ends in `Frame::read_async`, and `Worker::run_impl` re-creates
// `run_control_streams` in every iteration of its `select!` loop, dropping the previous future whenever
// another branch (a datagram, a new stream, a queued session ...) completes first. A future dropped
// while awaiting its k-th leaf read has already taken the bytes of reads 1..k-1 out of the QUIC stream.
//
// Contract checked here on the extracted body of `Frame::read_async` (R9: sequential composition of
// its awaits): every leaf read is STARTED with nothing consumed since the frame began (precondition
// of the assumed leaf operations in `_async_cancel.inc`). If it holds, dropping the future at any
// await loses nothing (the leaf futures' own partial progress is the Kani harnesses
// `p_get_varint_cancel_keeps_input` / `p_get_buffer_cancel_keeps_input`).
use vstd::prelude::*;
use std::borrow::Cow;

verus! {

//@ include _frame_common.inc

//@ include _async_cancel.inc

// assumed std: `vec![0; n]`, `Vec::shrink_to_fit`, `Cow::Owned`
// (the precondition is the allocation bound of C11: the buffer allocated for a payload announced
// by the peer never exceeds the 4096-byte parse limit)
#[verifier::external_body]
fn vec_zeroed(n: usize) -> (r: Vec<u8>)
    requires n <= 4096,
    ensures r@.len() == n,
{
    vec![0; n]
}

#[verifier::external_body]
fn vec_shrink_to_fit(v: &mut Vec<u8>)
    ensures final(v)@ == old(v)@,
{
    v.shrink_to_fit()
}

#[verifier::external_body]
fn cow_owned<'a>(v: Vec<u8>) -> (r: Cow<'a, [u8]>)
    ensures r@ == v@,
{
    Cow::Owned(v)
}

// ---- frame.rs (async) ------------------------------------------------------------------------
//@ extract wtransport-proto/src/frame.rs >> enum IoReadError
//@ subst `IO(bytes::IoReadError)` => `IO(BytesIoReadError)`
//@ end

// `?` on a `bytes::IoReadError` converts with this impl (extracted as a plain function; the `?`
// sites are rewritten to call it explicitly, R8)
//@ extract wtransport-proto/src/frame.rs >> impl From<bytes::IoReadError> for IoReadError >> fn from
//@ subst `fn from(io_error: bytes::IoReadError) -> Self` => `fn io_read_error_from(io_error: BytesIoReadError) -> IoReadError`
//@ ensures r == IoReadError::IO(io_error)
//@ end

impl<'a> Frame<'a> {
//@ extract wtransport-proto/src/frame.rs >> impl<'a> Frame<'a> >> fn read_async
//@ subst `async fn` => `fn`
//@ subst `R: AsyncRead + Unpin + ?Sized,` => `R: AsyncReader,`
//@ subst `use crate::bytes::BytesReaderAsync;` => ``
//@ rename `bytes::IoReadError` => `BytesIoReadError`
//@ resub `\|e\|\s*match e\s*\{\s*BytesIoReadError::ImmediateFin\s*=>\s*BytesIoReadError::UnexpectedFin,\s*_\s*=>\s*e,\s*\}\)\?` => `|e: BytesIoReadError| -> (o: BytesIoReadError) ensures o == fin_remap(e) { match e { BytesIoReadError::ImmediateFin => BytesIoReadError::UnexpectedFin, _ => e, } }).map_err(|e: BytesIoReadError| -> (o: IoReadError) ensures o == IoReadError::IO(e) { io_read_error_from(e) })?`
//@ resub `\s*\.await\?` => `.map_err(|e: BytesIoReadError| -> (o: IoReadError) ensures o == IoReadError::IO(e) { io_read_error_from(e) })?`
//@ resub `\s*\.await\b` => ``
//@ subst `|InvalidSessionId| IoReadError::Parse(ParseError::InvalidSessionId)` => `|_e: InvalidSessionId| -> (o: IoReadError) ensures o == IoReadError::Parse(ParseError::InvalidSessionId) { IoReadError::Parse(ParseError::InvalidSessionId) }`
//@ rename `Self::MAX_PARSE_PAYLOAD_ALLOWED` => `4096`
//@ resub `vec!\[0; ([^\]]+)\]` => `vec_zeroed(\1)`
//@ resub `(\w+)\.shrink_to_fit\(\);` => `vec_shrink_to_fit(&mut \1);`
//@ resub `Cow::Owned\((\w+)\)` => `cow_owned(\1)`
//@ requires old(reader).remaining() == old(reader).frame_start()
//@ end
}


} // verus!

fn main() {}
