// Unit `ids`: varint.rs + ids.rs identifier algebra (C17, C14 size, C18 status codes).
// All executable text below comes from /repo via `//@ extract` blocks; the rest is ghost.
use vstd::prelude::*;

verus! {

// ---- reference definitions (mirror of /verif/kani/proto/spec.rs) ----
spec const VARINT_MAX: u64 = 0x3fff_ffff_ffff_ffff;
spec const QSTREAM_MAX: u64 = 0x0fff_ffff_ffff_ffff;

spec fn varint_len(v: u64) -> int {
    if v < 0x40 { 1 } else if v < 0x4000 { 2 } else if v < 0x4000_0000 { 4 } else { 8 }
}

spec fn varint_len_from_first(b: u8) -> int {
    if b / 64 == 0 { 1 } else if b / 64 == 1 { 2 } else if b / 64 == 2 { 4 } else { 8 }
}

// RFC 9000 §2.1
spec fn stream_is_client_initiated(id: u64) -> bool { id % 4 == 0 || id % 4 == 2 }
spec fn stream_is_bidirectional(id: u64) -> bool { id % 4 == 0 || id % 4 == 1 }

// ---- type invariants ----
struct VarIntBoundsExceeded;
struct InvalidSessionId;
struct InvalidQStreamId;
struct InvalidStatusCode;

//@ extract wtransport-proto/src/varint.rs >> struct VarInt
//@ end

impl VarInt {
    spec fn wf(self) -> bool { self.0 <= VARINT_MAX }

//@ extract wtransport-proto/src/varint.rs >> impl VarInt >> fn from_u32
//@ ensures r.0 == value as u64, r.wf()
//@ end

//@ extract wtransport-proto/src/varint.rs >> impl VarInt >> fn try_from_u64
//@ rename `Self::MAX.0` => `4_611_686_018_427_387_903`
//@ ensures
//@ | match r { Ok(v) => value <= VARINT_MAX && v.0 == value && v.wf(), Err(_) => value > VARINT_MAX }
//@ end

//@ extract wtransport-proto/src/varint.rs >> impl VarInt >> fn from_u64_unchecked
//@ rename `Self::MAX.into_inner()` => `4_611_686_018_427_387_903`
//@ requires value <= VARINT_MAX
//@ ensures r.0 == value, r.wf()
//@ end

//@ extract wtransport-proto/src/varint.rs >> impl VarInt >> fn into_inner
//@ ensures r == self.0
//@ end

//@ extract wtransport-proto/src/varint.rs >> impl VarInt >> fn size
//@ requires self.wf()
//@ ensures r as int == varint_len(self.0), r == 1 || r == 2 || r == 4 || r == 8
//@ end

//@ extract wtransport-proto/src/varint.rs >> impl VarInt >> fn parse_size
//@ prologue proof { assert(first >> 6 == first / 64) by (bit_vector); assert(first / 64 <= 3) by (bit_vector); }
//@ ensures r as int == varint_len_from_first(first)
//@ end
}

// VarInt::MAX as a function-free constant check: the literal used in the substitutions above is the
// initializer of `VarInt::MAX` in the source (checked textually by the extractor via `subst` on the
// const item below).
//@ extract wtransport-proto/src/varint.rs >> impl VarInt >> const MAX
//@ subst `const MAX: Self = Self(4_611_686_018_427_387_903);` => `spec const VARINT_MAX_SRC: u64 = 4_611_686_018_427_387_903;`
//@ end
proof fn varint_max_is_rfc() ensures VARINT_MAX_SRC == VARINT_MAX, VARINT_MAX == 0x4000_0000_0000_0000 - 1 {}

//@ extract wtransport-proto/src/ids.rs >> struct StreamId
//@ end

impl StreamId {
    spec fn wf(self) -> bool { self.0.wf() }
    spec fn val(self) -> u64 { self.0.0 }

//@ extract wtransport-proto/src/ids.rs >> impl StreamId >> fn new
//@ ensures r.0 == varint
//@ end

//@ extract wtransport-proto/src/ids.rs >> impl StreamId >> fn is_bidirectional
//@ prologue proof { let x = self.0.0; assert((x & 0x2 == 0) == (x % 4 == 0 || x % 4 == 1)) by (bit_vector); }
//@ ensures r == stream_is_bidirectional(self.val())
//@ end

//@ extract wtransport-proto/src/ids.rs >> impl StreamId >> fn is_client_initiated
//@ prologue proof { let x = self.0.0; assert((x & 0x1 == 0) == (x % 4 == 0 || x % 4 == 2)) by (bit_vector); }
//@ ensures r == stream_is_client_initiated(self.val())
//@ end

//@ extract wtransport-proto/src/ids.rs >> impl StreamId >> fn is_local
//@ prologue proof { let x = self.0.0; assert((x & 0x1 == 0) == (x % 4 == 0 || x % 4 == 2)) by (bit_vector); assert(x & 0x1 == 0 || x & 0x1 == 1) by (bit_vector); }
//@ ensures r == (stream_is_client_initiated(self.val()) != is_server)
//@ end

//@ extract wtransport-proto/src/ids.rs >> impl StreamId >> fn into_u64
//@ ensures r == self.val()
//@ end

//@ extract wtransport-proto/src/ids.rs >> impl StreamId >> fn into_varint
//@ ensures r == self.0
//@ end
}

//@ extract wtransport-proto/src/ids.rs >> struct SessionId
//@ end

impl SessionId {
    spec fn val(self) -> u64 { self.0.0.0 }
    // type invariant: a session id names a client-initiated bidirectional stream below 2^62
    spec fn wf(self) -> bool { self.0.wf() && self.val() % 4 == 0 }

//@ extract wtransport-proto/src/ids.rs >> impl SessionId >> fn into_u64
//@ ensures r == self.val()
//@ end

//@ extract wtransport-proto/src/ids.rs >> impl SessionId >> fn into_varint
//@ ensures r == self.0.0
//@ end

//@ extract wtransport-proto/src/ids.rs >> impl SessionId >> fn session_stream
//@ ensures r == self.0
//@ end

//@ extract wtransport-proto/src/ids.rs >> impl SessionId >> fn try_from_session_stream
//@ requires stream_id.wf()
//@ ensures
//@ | match r { Ok(s) => stream_id.val() % 4 == 0 && s.0 == stream_id && s.wf(), Err(_) => stream_id.val() % 4 != 0 }
//@ end

//@ extract wtransport-proto/src/ids.rs >> impl SessionId >> fn from_session_stream_unchecked
//@ requires stream_id.wf(), stream_id.val() % 4 == 0
//@ ensures r.0 == stream_id, r.wf()
//@ end

//@ extract wtransport-proto/src/ids.rs >> impl SessionId >> fn try_from_varint
//@ requires varint.wf()
//@ ensures
//@ | match r { Ok(s) => varint.0 % 4 == 0 && s.val() == varint.0 && s.wf(), Err(_) => varint.0 % 4 != 0 }
//@ end
}

//@ extract wtransport-proto/src/ids.rs >> struct QStreamId
//@ end

impl QStreamId {
    spec fn val(self) -> u64 { self.0.0 }
    spec fn wf(self) -> bool { self.val() <= QSTREAM_MAX }

//@ extract wtransport-proto/src/ids.rs >> impl QStreamId >> fn from_session_id
//@ rename `Self::MAX.into_u64()` => `1_152_921_504_606_846_975`
//@ prologue proof { let x = session_id.val(); assert(x <= 0x3fff_ffff_ffff_ffff ==> (x >> 2) <= 0x0fff_ffff_ffff_ffff && (x >> 2) == x / 4) by (bit_vector); }
//@ requires session_id.wf()
//@ ensures r.val() == session_id.val() / 4, r.wf()
//@ end

//@ extract wtransport-proto/src/ids.rs >> impl QStreamId >> fn into_stream_id
//@ rename `VarInt::MAX.into_inner()` => `4_611_686_018_427_387_903`
//@ prologue proof { let x = self.val(); assert(x <= 0x0fff_ffff_ffff_ffff ==> (x << 2) <= 0x3fff_ffff_ffff_ffff && (x << 2) == x * 4) by (bit_vector); }
//@ requires self.wf()
//@ ensures r.val() == 4 * self.val(), r.wf()
//@ end

//@ extract wtransport-proto/src/ids.rs >> impl QStreamId >> fn into_session_id
//@ requires self.wf()
//@ ensures r.val() == 4 * self.val(), r.wf()
//@ end

//@ extract wtransport-proto/src/ids.rs >> impl QStreamId >> fn into_u64
//@ ensures r == self.val()
//@ end

//@ extract wtransport-proto/src/ids.rs >> impl QStreamId >> fn into_varint
//@ ensures r == self.0
//@ end
}

// The literal substituted for `QStreamId::MAX` is its initializer in the source:
//@ extract wtransport-proto/src/ids.rs >> impl QStreamId >> const MAX
//@ subst `const MAX: QStreamId =
//@ |        unsafe { Self(VarInt::from_u64_unchecked(1_152_921_504_606_846_975)) };` => `spec const QSTREAM_MAX_SRC: u64 = 1_152_921_504_606_846_975;`
//@ end
proof fn qstream_max_is_rfc() ensures QSTREAM_MAX_SRC == QSTREAM_MAX, QSTREAM_MAX == 0x1000_0000_0000_0000 - 1 {}

// ---- lemmas over the contracts (C17: conversions are mutually inverse and stay in range) ----
fn lemma_q_s_q(q: QStreamId) -> (r: QStreamId)
    requires q.wf()
    ensures r.val() == q.val()
{
    let s = q.into_session_id();
    QStreamId::from_session_id(s)
}

fn lemma_s_q_s(s: SessionId) -> (r: SessionId)
    requires s.wf()
    ensures r.val() == s.val()
{
    let q = QStreamId::from_session_id(s);
    q.into_session_id()
}

} // verus!

fn main() {}
