// Unit `driver_poll`: the poll-level forwarding impls of the stream wrappers
// (wtransport/src/driver/streams/mod.rs: QuicSendStream as wtransport_proto::bytes::AsyncWrite and as
// tokio::io::AsyncWrite, QuicRecvStream as wtransport_proto::bytes::AsyncRead; wtransport/src/stream.rs:
// SendStream, BiStream as tokio::io::AsyncWrite).
//
// C16: the byte count reported to the sans-IO writers is exactly what quinn accepted of exactly the
// bytes handed in (never `buf.len()` by fiat); C06: poll_shutdown reaches quinn's poll_shutdown (the
// FIN), poll_flush reaches poll_flush - no operation is swapped for another on the way down; C05: the
// count the sans-IO readers get per poll is the number of bytes quinn filled in (an error stays an error).
//
// Bodies extracted from /repo. R14 (this unit): `mut self: Pin<&mut Self>` is read as `&mut self`
// and `Pin::new(&mut x)` as `&mut x` (all wrapper types are Unpin tuple structs: Pin is a no-op
// newtype there), the trait-qualified call `tokio::io::AsyncWrite::poll_X(..)` is resolved by hand to
// the inherent method of the next layer, and since one type carries `poll_write` of two traits the
// sans-IO one is named `proto_poll_write`. quinn::SendStream is an ASSUMED stand-in: every poll
// answers by an unknown outcome (uninterpreted function of handle, position in the operation history
// and bytes offered) and appends the operation to a ghost history.
use vstd::prelude::*;

// std::task::ready!, for the stand-in Poll (so that a body using it is still readable)
macro_rules! ready { ($e:expr $(,)?) => { match $e { Poll::Ready(t) => t, Poll::Pending => { return Poll::Pending; } } }; }

verus! {

#[verifier::external_body]
struct IoError { x: u8 }
#[verifier::external_body]
struct Context { x: u8 }
enum Poll<T> { Ready(T), Pending }

enum Op { Write(Seq<u8>), Flush, Shutdown }
struct QuinnSendStream { id: u64, ops: Ghost<Seq<Op>> }
uninterp spec fn write_outcome(id: u64, at: nat, buf: Seq<u8>) -> Poll<Result<usize, IoError>>;
uninterp spec fn flush_outcome(id: u64, at: nat) -> Poll<Result<(), IoError>>;
uninterp spec fn shutdown_outcome(id: u64, at: nat) -> Poll<Result<(), IoError>>;
impl QuinnSendStream {
    #[verifier::external_body]
    fn poll_write(&mut self, cx: &mut Context, buf: &[u8]) -> (r: Poll<Result<usize, IoError>>)
        ensures r == write_outcome(old(self).id, old(self).ops@.len(), buf@),
            final(self).id == old(self).id, final(self).ops@ == old(self).ops@.push(Op::Write(buf@)),
    { unimplemented!() }
    #[verifier::external_body]
    fn poll_flush(&mut self, cx: &mut Context) -> (r: Poll<Result<(), IoError>>)
        ensures r == flush_outcome(old(self).id, old(self).ops@.len()),
            final(self).id == old(self).id, final(self).ops@ == old(self).ops@.push(Op::Flush),
    { unimplemented!() }
    #[verifier::external_body]
    fn poll_shutdown(&mut self, cx: &mut Context) -> (r: Poll<Result<(), IoError>>)
        ensures r == shutdown_outcome(old(self).id, old(self).ops@.len()),
            final(self).id == old(self).id, final(self).ops@ == old(self).ops@.push(Op::Shutdown),
    { unimplemented!() }
}

struct QuicSendStream(QuinnSendStream);
struct SendStream(QuicSendStream);
struct RecvStream(QuicRecvStream);
struct BiStream((SendStream, RecvStream));


impl QuicSendStream {
//@ extract wtransport/src/driver/streams/mod.rs >> impl wtransport_proto::bytes::AsyncWrite for QuicSendStream >> fn poll_write
//@ subst `mut self: Pin<&mut Self>` => `&mut self`
//@ subst `Context<'_>` => `Context`
//@ resub `Poll<(std::io::Result<usize>|Result<usize, std::io::Error>)>` => `Poll<Result<usize, IoError>>`
//@ resub `tokio::io::AsyncWrite::(poll_\w+)\(\s*Pin::new\(([^()]*)\)` => `QuinnSendStream::\1(\2`
//@ subst `fn poll_write(` => `fn proto_poll_write(`
//@ ensures
//@ | r == write_outcome(old(self).0.id, old(self).0.ops@.len(), buf@),
//@ | final(self).0.id == old(self).0.id, final(self).0.ops@ == old(self).0.ops@.push(Op::Write(buf@)),
//@ end
//@ extract wtransport/src/driver/streams/mod.rs >> impl tokio::io::AsyncWrite for QuicSendStream >> fn poll_write
//@ subst `mut self: Pin<&mut Self>` => `&mut self`
//@ subst `Context<'_>` => `Context`
//@ resub `Poll<(std::io::Result<usize>|Result<usize, std::io::Error>)>` => `Poll<Result<usize, IoError>>`
//@ resub `tokio::io::AsyncWrite::(poll_\w+)\(\s*Pin::new\(([^()]*)\)` => `QuinnSendStream::\1(\2`
//@ ensures
//@ | r == write_outcome(old(self).0.id, old(self).0.ops@.len(), buf@),
//@ | final(self).0.id == old(self).0.id, final(self).0.ops@ == old(self).0.ops@.push(Op::Write(buf@)),
//@ end
//@ extract wtransport/src/driver/streams/mod.rs >> impl tokio::io::AsyncWrite for QuicSendStream >> fn poll_flush
//@ subst `mut self: Pin<&mut Self>` => `&mut self`
//@ subst `Context<'_>` => `Context`
//@ resub `Poll<(std::io::Result<\(\)>|Result<\(\), std::io::Error>)>` => `Poll<Result<(), IoError>>`
//@ resub `tokio::io::AsyncWrite::(poll_\w+)\(\s*Pin::new\(([^()]*)\)` => `QuinnSendStream::\1(\2`
//@ ensures
//@ | r == flush_outcome(old(self).0.id, old(self).0.ops@.len()),
//@ | final(self).0.id == old(self).0.id, final(self).0.ops@ == old(self).0.ops@.push(Op::Flush),
//@ end
//@ extract wtransport/src/driver/streams/mod.rs >> impl tokio::io::AsyncWrite for QuicSendStream >> fn poll_shutdown
//@ subst `mut self: Pin<&mut Self>` => `&mut self`
//@ subst `Context<'_>` => `Context`
//@ resub `Poll<(std::io::Result<\(\)>|Result<\(\), std::io::Error>)>` => `Poll<Result<(), IoError>>`
//@ resub `tokio::io::AsyncWrite::(poll_\w+)\(\s*Pin::new\(([^()]*)\)` => `QuinnSendStream::\1(\2`
//@ ensures
//@ | r == shutdown_outcome(old(self).0.id, old(self).0.ops@.len()),
//@ | final(self).0.id == old(self).0.id, final(self).0.ops@ == old(self).0.ops@.push(Op::Shutdown),
//@ end
}

impl SendStream {
//@ extract wtransport/src/stream.rs >> impl tokio::io::AsyncWrite for SendStream >> fn poll_write
//@ subst `mut self: Pin<&mut Self>` => `&mut self`
//@ subst `Context<'_>` => `Context`
//@ resub `Poll<(std::io::Result<usize>|Result<usize, std::io::Error>)>` => `Poll<Result<usize, IoError>>`
//@ resub `tokio::io::AsyncWrite::(poll_\w+)\(\s*Pin::new\(([^()]*)\)` => `QuicSendStream::\1(\2`
//@ ensures
//@ | r == write_outcome(old(self).0.0.id, old(self).0.0.ops@.len(), buf@),
//@ | final(self).0.0.id == old(self).0.0.id, final(self).0.0.ops@ == old(self).0.0.ops@.push(Op::Write(buf@)),
//@ end
//@ extract wtransport/src/stream.rs >> impl tokio::io::AsyncWrite for SendStream >> fn poll_flush
//@ subst `mut self: Pin<&mut Self>` => `&mut self`
//@ subst `Context<'_>` => `Context`
//@ resub `Poll<(std::io::Result<\(\)>|Result<\(\), std::io::Error>)>` => `Poll<Result<(), IoError>>`
//@ resub `tokio::io::AsyncWrite::(poll_\w+)\(\s*Pin::new\(([^()]*)\)` => `QuicSendStream::\1(\2`
//@ ensures
//@ | r == flush_outcome(old(self).0.0.id, old(self).0.0.ops@.len()),
//@ | final(self).0.0.id == old(self).0.0.id, final(self).0.0.ops@ == old(self).0.0.ops@.push(Op::Flush),
//@ end
//@ extract wtransport/src/stream.rs >> impl tokio::io::AsyncWrite for SendStream >> fn poll_shutdown
//@ subst `mut self: Pin<&mut Self>` => `&mut self`
//@ subst `Context<'_>` => `Context`
//@ resub `Poll<(std::io::Result<\(\)>|Result<\(\), std::io::Error>)>` => `Poll<Result<(), IoError>>`
//@ resub `tokio::io::AsyncWrite::(poll_\w+)\(\s*Pin::new\(([^()]*)\)` => `QuicSendStream::\1(\2`
//@ ensures
//@ | r == shutdown_outcome(old(self).0.0.id, old(self).0.0.ops@.len()),
//@ | final(self).0.0.id == old(self).0.0.id, final(self).0.0.ops@ == old(self).0.0.ops@.push(Op::Shutdown),
//@ end
}

impl BiStream {
//@ extract wtransport/src/stream.rs >> impl tokio::io::AsyncWrite for BiStream >> fn poll_write
//@ subst `mut self: Pin<&mut Self>` => `&mut self`
//@ subst `Context<'_>` => `Context`
//@ resub `Poll<(std::io::Result<usize>|Result<usize, std::io::Error>)>` => `Poll<Result<usize, IoError>>`
//@ resub `tokio::io::AsyncWrite::(poll_\w+)\(\s*Pin::new\(([^()]*)\)` => `SendStream::\1(\2`
//@ ensures
//@ | r == write_outcome(old(self).0.0.0.0.id, old(self).0.0.0.0.ops@.len(), buf@),
//@ | final(self).0.0.0.0.id == old(self).0.0.0.0.id, final(self).0.0.0.0.ops@ == old(self).0.0.0.0.ops@.push(Op::Write(buf@)),
//@ end
//@ extract wtransport/src/stream.rs >> impl tokio::io::AsyncWrite for BiStream >> fn poll_flush
//@ subst `mut self: Pin<&mut Self>` => `&mut self`
//@ subst `Context<'_>` => `Context`
//@ resub `Poll<(std::io::Result<\(\)>|Result<\(\), std::io::Error>)>` => `Poll<Result<(), IoError>>`
//@ resub `tokio::io::AsyncWrite::(poll_\w+)\(\s*Pin::new\(([^()]*)\)` => `SendStream::\1(\2`
//@ ensures
//@ | r == flush_outcome(old(self).0.0.0.0.id, old(self).0.0.0.0.ops@.len()),
//@ | final(self).0.0.0.0.id == old(self).0.0.0.0.id, final(self).0.0.0.0.ops@ == old(self).0.0.0.0.ops@.push(Op::Flush),
//@ end
//@ extract wtransport/src/stream.rs >> impl tokio::io::AsyncWrite for BiStream >> fn poll_shutdown
//@ subst `mut self: Pin<&mut Self>` => `&mut self`
//@ subst `Context<'_>` => `Context`
//@ resub `Poll<(std::io::Result<\(\)>|Result<\(\), std::io::Error>)>` => `Poll<Result<(), IoError>>`
//@ resub `tokio::io::AsyncWrite::(poll_\w+)\(\s*Pin::new\(([^()]*)\)` => `SendStream::\1(\2`
//@ ensures
//@ | r == shutdown_outcome(old(self).0.0.0.0.id, old(self).0.0.0.0.ops@.len()),
//@ | final(self).0.0.0.0.id == old(self).0.0.0.0.id, final(self).0.0.0.0.ops@ == old(self).0.0.0.0.ops@.push(Op::Shutdown),
//@ end
}

// ---- read side: the sans-IO AsyncRead adapter ------------------------------------------------------
// ASSUMED stand-ins: tokio's ReadBuf over the caller's slice (only its capacity and filled length are
// modelled; that `filled()` aliases the caller's slice is tokio's), quinn::RecvStream::poll_read
// answering by an unknown outcome and filling an unknown number of bytes <= capacity on Ok.
struct ReadBuf<'a> { cap: Ghost<nat>, filled_len: usize, buf: &'a mut [u8] }
impl<'a> ReadBuf<'a> {
    #[verifier::external_body]
    fn new(buf: &'a mut [u8]) -> (r: ReadBuf<'a>)
        ensures r.cap@ == old(buf)@.len(), r.filled_len == 0,
    { unimplemented!() }
    #[verifier::external_body]
    fn filled(&self) -> (r: &[u8]) ensures r@.len() == self.filled_len { unimplemented!() }
}
struct QuinnRecvStream { id: u64, reads: Ghost<nat> }
uninterp spec fn read_outcome(id: u64, at: nat, cap: nat) -> Poll<Result<(), IoError>>;
uninterp spec fn read_filled(id: u64, at: nat, cap: nat) -> usize;
impl QuinnRecvStream {
    #[verifier::external_body]
    fn poll_read<'a>(&mut self, cx: &mut Context, buf: &mut ReadBuf<'a>) -> (r: Poll<Result<(), IoError>>)
        ensures r == read_outcome(old(self).id, old(self).reads@, old(buf).cap@),
            final(self).id == old(self).id, final(self).reads@ == old(self).reads@ + 1,
            final(buf).cap == old(buf).cap,
            r matches Poll::Ready(Ok(_)) ==> final(buf).filled_len == read_filled(old(self).id, old(self).reads@, old(buf).cap@),
    { unimplemented!() }
}
struct QuicRecvStream(QuinnRecvStream);

impl QuicRecvStream {
// the count handed to the sans-IO readers is exactly the number of bytes quinn filled in, an error is
// passed on as it is, Pending stays Pending; quinn is polled exactly once
//@ extract wtransport/src/driver/streams/mod.rs >> impl wtransport_proto::bytes::AsyncRead for QuicRecvStream >> fn poll_read
//@ subst `mut self: Pin<&mut Self>` => `&mut self`
//@ subst `Context<'_>` => `Context`
//@ subst `Poll<std::io::Result<usize>>` => `Poll<Result<usize, IoError>>`
//@ resub `tokio::io::AsyncRead::(poll_\w+)\(\s*Pin::new\(([^()]*)\)` => `QuinnRecvStream::\1(\2`
//@ ensures
//@ | final(self).0.id == old(self).0.id, final(self).0.reads@ == old(self).0.reads@ + 1,
//@ | read_outcome(old(self).0.id, old(self).0.reads@, old(buf)@.len() as nat) is Pending ==> r is Pending,
//@ | read_outcome(old(self).0.id, old(self).0.reads@, old(buf)@.len() as nat) matches Poll::Ready(Err(e)) ==> r == Poll::Ready(Err::<usize, IoError>(e)),
//@ | read_outcome(old(self).0.id, old(self).0.reads@, old(buf)@.len() as nat) matches Poll::Ready(Ok(_)) ==> r == Poll::Ready(Ok::<usize, IoError>(read_filled(old(self).0.id, old(self).0.reads@, old(buf)@.len() as nat))),
//@ end
}

} // verus!

fn main() {}
