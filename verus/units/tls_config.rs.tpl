// Unit `tls_config`: the default TLS configurations of wtransport/src/tls.rs (C20: "negotiates only
// TLS 1.3 with ALPN 'h3'"). Bodies of server::build_default_tls_config and
// client::build_default_tls_config are extracted; the rustls builder objects are ASSUMED stand-ins
// that record what they were given (protocol versions, verifier, ALPN list).
use vstd::prelude::*;
use std::sync::Arc;

// verif: counter-overflow-undecided
verus! {

// assumed std contract (vstd has none): <[T]>::to_vec clones element-wise
pub assume_specification<T: Clone>[<[T]>::to_vec](s: &[T]) -> (r: Vec<T>)
    ensures r@.len() == s@.len(), forall|i: int| 0 <= i < s@.len() ==> cloned::<T>(s@[i], #[trigger] r@[i]);

// the ALPN token: wtransport_proto::WEBTRANSPORT_ALPN; its value is proved on the real crate by the
// Kani harness p_alpn_is_h3 (registered with this property)
#[verifier::external_body]
exec const WEBTRANSPORT_ALPN: &'static [u8; 2] ensures WEBTRANSPORT_ALPN@ == seq![0x68u8, 0x33u8] { b"h3" }

// ---- assumed: rustls -------------------------------------------------------------------------
struct SupportedProtocolVersion { version: u16 }
exec static TLS13: SupportedProtocolVersion ensures TLS13.version == 0x0304 { SupportedProtocolVersion { version: 0x0304 } }
exec static TLS12: SupportedProtocolVersion ensures TLS12.version == 0x0303 { SupportedProtocolVersion { version: 0x0303 } }
spec fn versions_of(s: Seq<&SupportedProtocolVersion>) -> Seq<u16> { s.map(|i: int, x: &SupportedProtocolVersion| x.version) }

#[verifier::external_body]
struct CryptoProvider { x: u8 }
#[verifier::external_body]
fn default_crypto_provider() -> CryptoProvider { unimplemented!() }
#[derive(Debug)]
struct RustlsError;

#[verifier::external_body]
struct CertificateDer { x: u8 }
#[verifier::external_body]
struct PrivateKeyDer { x: u8 }
#[verifier::external_body]
struct RootCertStore { x: u8 }
// Arc<dyn ServerCertVerifier>
#[verifier::external_body]
struct VerifierHandle { x: u8 }

// which verifier a client config ends up with
enum VerifierChoice { WebPki(RootCertStore), Custom(VerifierHandle) }

struct TlsServerConfig { alpn_protocols: Vec<Vec<u8>>, versions: Ghost<Seq<u16>>, client_auth: Ghost<bool>, certs: Ghost<Seq<CertificateDer>>, key: Ghost<PrivateKeyDer> }
struct ServerBuilder { versions: Ghost<Seq<u16>>, client_auth: Ghost<bool> }
uninterp spec fn cert_key_valid(certs: Seq<CertificateDer>, key: PrivateKeyDer) -> bool;

impl TlsServerConfig {
    #[verifier::external_body]
    fn builder_with_provider(provider: Arc<CryptoProvider>) -> (r: ServerBuilder) { unimplemented!() }
}
impl ServerBuilder {
    // assumed: rustls accepts a non-empty version list the provider supports (TLS 1.3 is)
    #[verifier::external_body]
    fn with_protocol_versions(self, versions: &[&SupportedProtocolVersion]) -> (r: Result<ServerBuilder, RustlsError>)
        ensures
            versions@.len() > 0 ==> r is Ok,
            r matches Ok(b) ==> b.versions@ == versions_of(versions@),
    { unimplemented!() }
    #[verifier::external_body]
    fn with_no_client_auth(self) -> (r: ServerBuilder) ensures r.versions@ == self.versions@, r.client_auth@ == false { unimplemented!() }
    #[verifier::external_body]
    fn with_single_cert(self, cert_chain: Vec<CertificateDer>, key_der: PrivateKeyDer) -> (r: Result<TlsServerConfig, RustlsError>)
        ensures
            r is Ok <==> cert_key_valid(cert_chain@, key_der),
            r matches Ok(c) ==> c.versions@ == self.versions@ && c.client_auth@ == self.client_auth@ && c.alpn_protocols@.len() == 0
                && c.certs@ == cert_chain@ && c.key@ == key_der,
    { unimplemented!() }
}

struct TlsClientConfig { alpn_protocols: Vec<Vec<u8>>, versions: Ghost<Seq<u16>>, verifier: Ghost<VerifierChoice> }
struct ClientBuilder { versions: Ghost<Seq<u16>>, roots: Ghost<Option<RootCertStore>> }
impl TlsClientConfig {
    #[verifier::external_body]
    fn builder_with_provider(provider: Arc<CryptoProvider>) -> (r: ClientBuilder) ensures r.roots@ is None { unimplemented!() }
    // `config.dangerous().set_certificate_verifier(v)`
    #[verifier::external_body]
    fn dangerous_set_certificate_verifier(&mut self, verifier: VerifierHandle)
        ensures final(self).verifier@ == VerifierChoice::Custom(verifier), final(self).versions@ == old(self).versions@,
            final(self).alpn_protocols == old(self).alpn_protocols,
    { unimplemented!() }
}
impl ClientBuilder {
    #[verifier::external_body]
    fn with_protocol_versions(self, versions: &[&SupportedProtocolVersion]) -> (r: Result<ClientBuilder, RustlsError>)
        ensures
            versions@.len() > 0 ==> r is Ok,
            r matches Ok(b) ==> b.versions@ == versions_of(versions@) && b.roots@ == self.roots@,
    { unimplemented!() }
    #[verifier::external_body]
    fn with_root_certificates(self, root_store: Arc<RootCertStore>) -> (r: ClientBuilder)
        ensures r.versions@ == self.versions@, r.roots@ == Some(*root_store),
    { unimplemented!() }
    #[verifier::external_body]
    fn with_no_client_auth(self) -> (r: TlsClientConfig)
        ensures r.versions@ == self.versions@, r.alpn_protocols@.len() == 0,
            self.roots@ matches Some(s) ==> r.verifier@ == VerifierChoice::WebPki(s),
    { unimplemented!() }
}

// ---- assumed: tls.rs Identity (certificate chain + key, both opaque DER holders) --------------
struct PrivateKey(PrivateKeyDer);
#[verifier::external_body]
struct CertificateChain { x: u8 }
impl CertificateChain { uninterp spec fn ders(&self) -> Seq<CertificateDer>; }
struct Identity { certificate_chain: CertificateChain, private_key: PrivateKey }
// `identity.certificate_chain.0.into_iter().map(|cert| cert.0).collect()`
#[verifier::external_body]
fn chain_into_ders(chain: CertificateChain) -> (r: Vec<CertificateDer>) ensures r@ == chain.ders() { unimplemented!() }

// "h3" and nothing else
spec fn alpn_is_h3_only(alpn: Seq<Vec<u8>>) -> bool { alpn.len() == 1 && alpn[0]@ == seq![0x68u8, 0x33u8] }
spec fn tls13_only(v: Seq<u16>) -> bool { v.len() == 1 && v[0] == 0x0304 }

mod server {
use super::*;
//@ extract wtransport/src/tls.rs >> mod server >> fn build_default_tls_config
//@ rename `rustls::version::TLS13` => `TLS13`
//@ rename `rustls::version::TLS12` => `TLS12`
//@ substw `identity .certificate_chain .0 .into_iter() .map(|cert| cert.0) .collect()` => `chain_into_ders(identity.certificate_chain)`
//@ insert_before `tls_config
//@ |    }` => `proof { assert(tls_config.alpn_protocols@[0]@ =~= seq![0x68u8, 0x33u8]); }`
//@ requires cert_key_valid(identity.certificate_chain.ders(), identity.private_key.0)
//@ ensures
//@ | tls13_only(r.versions@),
//@ | alpn_is_h3_only(r.alpn_protocols@),
//@ | r.client_auth@ == false,
//@ | r.certs@ == identity.certificate_chain.ders() && r.key@ == identity.private_key.0,
//@ end
}

mod client {
use super::*;
//@ extract wtransport/src/tls.rs >> mod client >> fn build_default_tls_config
//@ rename `rustls::version::TLS13` => `TLS13`
//@ rename `rustls::version::TLS12` => `TLS12`
//@ subst `Option<Arc<dyn ServerCertVerifier>>` => `Option<VerifierHandle>`
//@ resub `\.dangerous\(\)\s*\.set_certificate_verifier\(` => `.dangerous_set_certificate_verifier(`
//@ insert_before `config
//@ |    }` => `proof { assert(config.alpn_protocols@[0]@ =~= seq![0x68u8, 0x33u8]); }`
//@ ensures
//@ | tls13_only(r.versions@),
//@ | alpn_is_h3_only(r.alpn_protocols@),
//@ | r.verifier@ == (match custom_verifier { Some(v) => VerifierChoice::Custom(v), None => VerifierChoice::WebPki(*root_store) }),
//@ end
}

} // verus!

fn main() {}
