// Unit `driver`: the synchronous decision points of wtransport/src/driver/mod.rs and the
// per-session demultiplexing loops (C17 foreign-session traffic, C12 duplicated critical streams /
// wrong first frame on a request stream, C18 refusal of non-WebTransport requests, C03 datagram
// attribution).
//
// Bodies are extracted from /repo; `async fn` bodies by R9 (sequential composition of the awaits).
// tokio channels, quinn streams and the proto-layer values are ASSUMED stand-ins:
//  * a queue is an unknown infinite feed `feed_*(i)` read in order (ANY sequence of queued items);
//  * `stop(code)` on a stream carries a precondition naming the only code the specification allows
//    at that point (a "monitor": calling it with another code is a failed obligation);
//  * `try_send` answers by an unknown function of the value, so that skipping the hand-over to the
//    application is visible in the result.
use vstd::prelude::*;
use vstd::std_specs::cmp::*;

// verif: counter-overflow-undecided
verus! {

// ---- assumed: wtransport-proto values -----------------------------------------------------------
#[derive(Clone, Copy)]
struct VarInt { v: u64 }
#[derive(Clone, Copy)]
struct SessionId { v: u64 }
impl PartialEqSpecImpl for SessionId {
    closed spec fn obeys_eq_spec() -> bool { true }
    closed spec fn eq_spec(&self, other: &SessionId) -> bool { self.v == other.v }
}
impl PartialEq for SessionId { fn eq(&self, other: &SessionId) -> (r: bool) { self.v == other.v } }
struct StreamId { v: u64 }

//@ extract wtransport-proto/src/error.rs >> enum ErrorCode
//@ end

// registry values (RFC 9114 8.1, RFC 9204 6, WebTransport draft); `ErrorCode::to_code` is proved
// equal to the registry on the real crate by the Kani harness c_error_code_to_code
spec fn registry(e: ErrorCode) -> u64 {
    match e {
        ErrorCode::Datagram => 0x33,
        ErrorCode::NoError => 0x100,
        ErrorCode::StreamCreation => 0x103,
        ErrorCode::ClosedCriticalStream => 0x104,
        ErrorCode::FrameUnexpected => 0x105,
        ErrorCode::Frame => 0x106,
        ErrorCode::ExcessiveLoad => 0x107,
        ErrorCode::Id => 0x108,
        ErrorCode::Settings => 0x109,
        ErrorCode::MissingSettings => 0x10a,
        ErrorCode::RequestRejected => 0x10b,
        ErrorCode::Message => 0x10e,
        ErrorCode::Decompression => 0x200,
        ErrorCode::BufferedStreamRejected => 0x3994_bd84,
        ErrorCode::SessionGone => 0x170d_7b68,
    }
}
impl ErrorCode {
//@ extract wtransport-proto/src/error.rs >> impl ErrorCode >> fn to_code
//@ bodyless
//@ nocanary
//@ attr #[verifier::external_body]
//@ ensures r.v == registry(self)
//@ end
}

//@ extract wtransport-proto/src/stream_header.rs >> enum StreamKind
//@ end

//@ extract wtransport-proto/src/frame.rs >> enum FrameKind
//@ end

//@ extract wtransport-proto/src/session.rs >> enum HeadersParseError
//@ end

// a received frame: kind, session id (Some iff it is a WebTransport signal) and its payload bytes
#[verifier::external_body]
struct Frame { x: u8 }
impl Frame {
    uninterp spec fn kind_spec(&self) -> FrameKind;
    uninterp spec fn session_spec(&self) -> Option<SessionId>;
    uninterp spec fn payload_spec(&self) -> Seq<u8>;
    #[verifier::external_body]
    fn kind(&self) -> (r: FrameKind) ensures r == self.kind_spec() { unimplemented!() }
}

// QPACK-decoded header section and the admission predicate of session.rs (decided for all header
// maps by unit `session`: Ok iff extended CONNECT / https / webtransport / authority / path)
#[verifier::external_body]
struct Headers { x: u8 }
uninterp spec fn headers_of(payload: Seq<u8>) -> Result<Headers, ErrorCode>;
impl Headers {
    #[verifier::external_body]
    fn with_frame(frame: &Frame) -> (r: Result<Headers, ErrorCode>) ensures r == headers_of(frame.payload_spec()) { unimplemented!() }
}
#[verifier::external_body]
struct SessionRequest { x: u8 }
uninterp spec fn request_of(headers: Headers) -> Result<SessionRequest, HeadersParseError>;
impl SessionRequest {
    #[verifier::external_body]
    fn try_from(headers: Headers) -> (r: Result<SessionRequest, HeadersParseError>) ensures r == request_of(headers) { unimplemented!() }
}
#[verifier::external_body]
struct Settings { x: u8 }
struct ApplicationClose { code: VarInt, reason: Vec<u8> }

// ---- assumed: quinn stream wrappers (driver/streams) -----------------------------------------------
#[derive(Debug)]
struct AlreadyStop;
struct QuicSendStream { id: u64 }
// a receive half that belongs to a WebTransport stream of some session
struct QuicRecvStream { id: u64 }
impl QuicRecvStream {
    // MONITOR: the only place the driver stops a raw WebTransport stream is the refusal of a
    // stream that names another session: WEBTRANSPORT_BUFFERED_STREAM_REJECTED
    #[verifier::external_body]
    fn stop(&mut self, error_code: VarInt) -> (r: Result<(), AlreadyStop>)
        requires error_code.v == 0x3994_bd84,
        ensures r is Ok,
    { unimplemented!() }
}
struct StreamUniRemoteWT { sid: SessionId, stream: QuicRecvStream }
impl StreamUniRemoteWT {
    fn session_id(&self) -> (r: SessionId) ensures r == self.sid { self.sid }
    fn into_stream(self) -> (r: QuicRecvStream) ensures r == self.stream { self.stream }
}
struct StreamBiRemoteWT { sid: SessionId, stream: (QuicSendStream, QuicRecvStream) }
impl StreamBiRemoteWT {
    fn session_id(&self) -> (r: SessionId) ensures r == self.sid { self.sid }
    fn into_stream(self) -> (r: (QuicSendStream, QuicRecvStream)) ensures r == self.stream { self.stream }
}
struct Datagram { sid: SessionId, payload: Vec<u8> }
impl Datagram {
    fn session_id(&self) -> (r: SessionId) ensures r == self.sid { self.sid }
    #[verifier::external_body]
    fn write(session_id: SessionId, payload: &[u8]) -> (r: Datagram)
        ensures r.sid == session_id, r.payload@ == dgram_wire(session_id, payload@),
    { unimplemented!() }
    #[verifier::external_body]
    fn header_size(session_id: SessionId) -> (r: usize) ensures r == dgram_header_len(session_id), 1 <= r <= 8 { unimplemented!() }
    fn into_quic_bytes(self) -> (r: QBytes) ensures r.b@ == self.payload@ { QBytes { b: self.payload } }
}

// a peer-opened unidirectional HTTP/3 stream after its type has been read
struct StreamUniRemoteH3 { k: StreamKind, id: u64 }
impl StreamUniRemoteH3 {
    fn kind(&self) -> (r: StreamKind) ensures r == self.k { self.k }
}
// a peer-opened bidirectional stream after its first (non-WebTransport) frame
// `expected`: the refusal code the specification prescribes for the request on this stream (a ghost
// label fixed by the caller's precondition; see `expected_refusal`)
enum Refusal { Malformed, Unwanted }
struct StreamBiRemoteH3 { id: u64, expected: Ghost<Option<Refusal>> }
struct StreamSession { id: u64, request: SessionRequest }
impl StreamBiRemoteH3 {
    // MONITOR: a request stream is only ever stopped to refuse the request on it, and with the code
    // the specification prescribes for that request
    #[verifier::external_body]
    fn stop(&mut self, error_code: VarInt) -> (r: Result<(), AlreadyStop>)
        requires
            old(self).expected@ matches Some(cls) && (match cls {
                // RFC 9114 4.1.2: a malformed request is a stream error H3_MESSAGE_ERROR
                Refusal::Malformed => error_code.v == registry(ErrorCode::Message),
                // a well-formed request this endpoint does not serve: rejected or message error
                Refusal::Unwanted => error_code.v == registry(ErrorCode::RequestRejected) || error_code.v == registry(ErrorCode::Message),
            }),
        ensures r is Ok, *final(self) == *old(self),
    { unimplemented!() }
    fn into_session(self, session_request: SessionRequest) -> (r: StreamSession)
        ensures r == (StreamSession { id: self.id, request: session_request })
    { StreamSession { id: self.id, request: session_request } }
}
impl StreamSession {
    // queue full: the session request is discarded with H3_REQUEST_REJECTED
    #[verifier::external_body]
    fn stop(&mut self, error_code: VarInt) -> (r: Result<(), AlreadyStop>)
        requires error_code.v == 0x10b,
        ensures r is Ok,
    { unimplemented!() }
}

// ---- assumed: tokio channels -------------------------------------------------------------------
// the i-th item each queue will deliver (None: the worker is gone)
uninterp spec fn feed_uni(i: nat) -> Option<StreamUniRemoteWT>;
uninterp spec fn feed_bi(i: nat) -> Option<StreamBiRemoteWT>;
uninterp spec fn feed_dgram(i: nat) -> Option<Datagram>;

#[verifier::external_body]
#[verifier::reject_recursive_types(T)]
struct Receiver<T> { t: Option<T> }
#[verifier::external_body]
#[verifier::reject_recursive_types(T)]
struct Mutex<T> { t: Option<T> }
#[verifier::reject_recursive_types(T)]
struct MutexGuard<T> { pos: Ghost<nat>, t: Ghost<Option<T>> }

// a queued item naming another session than the one asked for
spec fn foreign_uni(x: Option<StreamUniRemoteWT>, s: SessionId) -> bool { x matches Some(f) && f.sid.v != s.v }
spec fn foreign_bi(x: Option<StreamBiRemoteWT>, s: SessionId) -> bool { x matches Some(f) && f.sid.v != s.v }
spec fn foreign_dgram(x: Option<Datagram>, s: SessionId) -> bool { x matches Some(f) && f.sid.v != s.v }

// where the queue stands when a call takes the lock: unknown, but a function of the mutex
impl<T> Mutex<T> {
    uninterp spec fn queue_pos(&self) -> nat;
    #[verifier::external_body]
    fn lock(&self) -> (r: MutexGuard<T>) ensures r.pos@ == self.queue_pos() { unimplemented!() }
}
impl MutexGuard<Receiver<StreamUniRemoteWT>> {
    #[verifier::external_body]
    fn recv(&mut self) -> (r: Option<StreamUniRemoteWT>)
        ensures r == feed_uni(old(self).pos@), final(self).pos@ == old(self).pos@ + 1,
    { unimplemented!() }
}
impl MutexGuard<Receiver<StreamBiRemoteWT>> {
    #[verifier::external_body]
    fn recv(&mut self) -> (r: Option<StreamBiRemoteWT>)
        ensures r == feed_bi(old(self).pos@), final(self).pos@ == old(self).pos@ + 1,
    { unimplemented!() }
}
uninterp spec fn settings_recv_outcome() -> Option<Settings>;
impl MutexGuard<Receiver<Settings>> {
    #[verifier::external_body]
    fn recv(&mut self) -> (r: Option<Settings>) ensures r == settings_recv_outcome() { unimplemented!() }
}
impl MutexGuard<Receiver<Datagram>> {
    #[verifier::external_body]
    fn recv(&mut self) -> (r: Option<Datagram>)
        ensures r == feed_dgram(old(self).pos@), final(self).pos@ == old(self).pos@ + 1,
    { unimplemented!() }
}

//@ extract wtransport/src/driver/utils.rs >> enum TrySendError
//@ end

// what the bounded session queue answers for a value (unknown, but a function of the value)
uninterp spec fn try_send_outcome(s: StreamSession) -> Result<(), TrySendError<StreamSession>>;
#[verifier::external_body]
#[verifier::reject_recursive_types(T)]
struct BiChannelEndpoint<T> { t: Option<T> }
struct SendError;
uninterp spec fn session_recv_outcome() -> Option<StreamSession>;
uninterp spec fn session_send_outcome(s: StreamSession) -> Result<(), SendError>;
impl BiChannelEndpoint<StreamSession> {
    #[verifier::external_body]
    fn recv(&self) -> (r: Option<StreamSession>) ensures r == session_recv_outcome() { unimplemented!() }
    #[verifier::external_body]
    fn send(&self, value: StreamSession) -> (r: Result<(), SendError>) ensures r == session_send_outcome(value) { unimplemented!() }
    #[verifier::external_body]
    fn try_send(&self, value: StreamSession) -> (r: Result<(), TrySendError<StreamSession>>)
        ensures
            r == try_send_outcome(value),
            r matches Err(TrySendError::Full(v)) ==> v == value,
            r matches Err(TrySendError::Closed(v)) ==> v == value,
    { unimplemented!() }
}
#[verifier::external_body]
#[verifier::reject_recursive_types(T)]
struct Sender<T> { t: Option<T> }
#[verifier::external_body]
#[verifier::reject_recursive_types(T)]
struct SharedResultGet<T> { t: Option<T> }
// driver/utils.rs SharedResultSet: first `set` wins (value carried as a ghost; `&mut self` for the
// same reason as above)
#[verifier::reject_recursive_types(T)]
struct SharedResultSet<T> { value: Ghost<Option<T>> }
impl SharedResultSet<DriverError> {
    #[verifier::external_body]
    fn set(&mut self, result: DriverError) -> (r: bool)
        ensures final(self).value@ == (if old(self).value@ is None { Some(result) } else { old(self).value@ }),
    { unimplemented!() }
}
// quinn::Connection::send_datagram answers by an unknown function of the bytes it is given
#[verifier::external_body]
struct QConnectionError { x: u8 }
enum QSendDatagramError { UnsupportedByPeer, Disabled, TooLarge, ConnectionLost(QConnectionError) }
uninterp spec fn send_outcome(wire: Seq<u8>) -> Result<(), QSendDatagramError>;
struct QBytes { b: Vec<u8> }
#[derive(Clone, Copy)]
struct QVarInt { v: u64 }
// driver/utils.rs varint_w2q keeps the value (Kani p_varint_conversions_identity on the real crate)
#[verifier::external_body]
fn varint_w2q(varint: VarInt) -> (r: QVarInt) ensures r.v == varint.v { unimplemented!() }
#[verifier::external_body]
fn empty_reason() -> (r: &'static [u8]) ensures r@.len() == 0 { b"" }
// the QUIC connection handle: `closes` logs the application error codes it was told to close with
// (quinn's `close` takes `&self`; the worker owns its handle, the stand-in takes `&mut self` to carry
// the log)
struct QuicConnection { closes: Ghost<Seq<u64>> }
impl QuicConnection {
    #[verifier::external_body]
    fn close(&mut self, error_code: QVarInt, reason: &[u8])
        ensures final(self).closes@ == old(self).closes@.push(error_code.v),
    { unimplemented!() }
    // assumed: datagrams are never disabled locally on an endpoint this crate configures; quinn
    // refuses a datagram as TooLarge exactly when it exceeds its current max_datagram_size()
    #[verifier::external_body]
    fn send_datagram(&self, data: QBytes) -> (r: Result<(), QSendDatagramError>)
        ensures r == send_outcome(data.b@), !(r matches Err(QSendDatagramError::Disabled)),
            (r matches Err(QSendDatagramError::TooLarge)) <==> too_large(*self, data.b@),
    { unimplemented!() }
    #[verifier::external_body]
    fn max_datagram_size(&self) -> (r: Option<usize>) ensures r == quic_max_spec(*self) { unimplemented!() }
}
// what datagram.rs `Datagram::write(session, payload).into_quic_bytes()` puts on the wire (unit
// `datagram`: varint(session / 4) || payload)
uninterp spec fn dgram_header(session: SessionId) -> Seq<u8>;      // varint(session / 4), 1..=8 bytes
spec fn dgram_wire(session: SessionId, payload: Seq<u8>) -> Seq<u8> { dgram_header(session) + payload }
uninterp spec fn quic_max_spec(c: QuicConnection) -> Option<usize>;
spec fn dgram_header_len(session: SessionId) -> nat { dgram_header(session).len() }
// quinn's verdict on the size of a datagram
spec fn too_large(c: QuicConnection, wire: Seq<u8>) -> bool { quic_max_spec(c) matches Some(m) && wire.len() > m }

//@ extract wtransport/src/error.rs >> enum SendDatagramError
//@ noderive
//@ end

//@ extract wtransport/src/driver/mod.rs >> enum DriverError
//@ noderive
//@ end

// ---- driver/mod.rs: Driver (application side) ----------------------------------------------------
//@ extract wtransport/src/driver/mod.rs >> struct Driver
//@ rename `quinn::Connection` => `QuicConnection`
//@ rename `mpsc::Receiver` => `Receiver`
//@ end

impl Driver {
    uninterp spec fn result_spec(&self) -> DriverError;

//@ extract wtransport/src/driver/mod.rs >> impl Driver >> fn result
//@ deawait
//@ bodyless
//@ nocanary
//@ attr #[verifier::external_body]
//@ ensures r == self.result_spec()
//@ end

// the hand-over points between the worker and the application side: a value when the worker
// delivered one, otherwise the driver's own result (never an invented error)
//@ extract wtransport/src/driver/mod.rs >> impl Driver >> fn accept_settings
//@ deawait
//@ ensures
//@ | match settings_recv_outcome() { Some(x) => r == Ok::<Settings, DriverError>(x), None => r == Err::<Settings, DriverError>(self.result_spec()) }
//@ end

//@ extract wtransport/src/driver/mod.rs >> impl Driver >> fn accept_session
//@ deawait
//@ ensures
//@ | match session_recv_outcome() { Some(x) => r == Ok::<StreamSession, DriverError>(x), None => r == Err::<StreamSession, DriverError>(self.result_spec()) }
//@ end

//@ extract wtransport/src/driver/mod.rs >> impl Driver >> fn register_session
//@ deawait
//@ ensures
//@ | match session_send_outcome(stream_session) { Ok(()) => r is Ok, Err(_) => r == Err::<(), DriverError>(self.result_spec()) }
//@ end

// C17: a stream naming another session is never handed out: it is refused with
// WEBTRANSPORT_BUFFERED_STREAM_REJECTED (monitor on `stop`) and the loop goes on; the call fails
// only with the driver's own result
//@ extract wtransport/src/driver/mod.rs >> impl Driver >> fn accept_uni
//@ droplog
//@ deawait
//@ attr #[verifier::exec_allows_no_decreases_clause]
//@ ensures
//@ | exists|n: nat| #![trigger feed_uni(n)] n >= self.ready_uni_wt_streams.queue_pos()
//@ |     // everything queued before it named another session (and was refused: monitor on `stop`) - no
//@ |     // stream of this session is skipped or lost
//@ |     && (forall|k: nat| self.ready_uni_wt_streams.queue_pos() <= k < n ==> foreign_uni(#[trigger] feed_uni(k), session_id))
//@ |     && (match r {
//@ |         Ok(s) => feed_uni(n) == Some(s) && s.sid.v == session_id.v,
//@ |         Err(e) => feed_uni(n) is None && e == self.result_spec(),
//@ |     }),
//@ loop 1 invariant lock.pos@ >= self.ready_uni_wt_streams.queue_pos(), forall|k: nat| self.ready_uni_wt_streams.queue_pos() <= k < lock.pos@ ==> foreign_uni(#[trigger] feed_uni(k), session_id)
//@ end

//@ extract wtransport/src/driver/mod.rs >> impl Driver >> fn accept_bi
//@ droplog
//@ deawait
//@ attr #[verifier::exec_allows_no_decreases_clause]
//@ ensures
//@ | exists|n: nat| #![trigger feed_bi(n)] n >= self.ready_bi_wt_streams.queue_pos()
//@ |     // everything queued before it named another session (and was refused: monitor on `stop`) - no
//@ |     // stream of this session is skipped or lost
//@ |     && (forall|k: nat| self.ready_bi_wt_streams.queue_pos() <= k < n ==> foreign_bi(#[trigger] feed_bi(k), session_id))
//@ |     && (match r {
//@ |         Ok(s) => feed_bi(n) == Some(s) && s.sid.v == session_id.v,
//@ |         Err(e) => feed_bi(n) is None && e == self.result_spec(),
//@ |     }),
//@ loop 1 invariant lock.pos@ >= self.ready_bi_wt_streams.queue_pos(), forall|k: nat| self.ready_bi_wt_streams.queue_pos() <= k < lock.pos@ ==> foreign_bi(#[trigger] feed_bi(k), session_id)
//@ end

// C03 (send side): the bytes handed to QUIC are the datagram's wire image for THIS session; a payload is
// refused as TooLarge IFF its wire image exceeds quinn's current max_datagram_size (an equivalent
// local pre-check is fine), never otherwise for its size
//@ extract wtransport/src/driver/mod.rs >> impl Driver >> fn send_datagram
//@ rename `quinn::SendDatagramError` => `QSendDatagramError`
//@ ensures
//@ | if too_large(self.quic_connection, dgram_wire(session_id, payload@)) { r == Err::<(), SendDatagramError>(SendDatagramError::TooLarge) }
//@ | else { match send_outcome(dgram_wire(session_id, payload@)) {
//@ |     Ok(()) => r is Ok,
//@ |     Err(QSendDatagramError::UnsupportedByPeer) => r == Err::<(), SendDatagramError>(SendDatagramError::UnsupportedByPeer),
//@ |     Err(QSendDatagramError::ConnectionLost(_)) => r == Err::<(), SendDatagramError>(SendDatagramError::NotConnected),
//@ |     Err(QSendDatagramError::TooLarge) => true,
//@ |     Err(QSendDatagramError::Disabled) => true,
//@ | } }
//@ end

// C17 / C03: only datagrams of this session are delivered, exactly as queued; others are dropped
//@ extract wtransport/src/driver/mod.rs >> impl Driver >> fn receive_datagram
//@ droplog
//@ deawait
//@ attr #[verifier::exec_allows_no_decreases_clause]
//@ ensures
//@ | exists|n: nat| #![trigger feed_dgram(n)] n >= self.ready_datagrams.queue_pos()
//@ |     && (forall|k: nat| self.ready_datagrams.queue_pos() <= k < n ==> foreign_dgram(#[trigger] feed_dgram(k), session_id))
//@ |     && (match r {
//@ |         Ok(d) => feed_dgram(n) == Some(d) && d.sid.v == session_id.v,
//@ |         Err(e) => feed_dgram(n) is None && e == self.result_spec(),
//@ |     }),
//@ loop 1 invariant lock.pos@ >= self.ready_datagrams.queue_pos(), forall|k: nat| self.ready_datagrams.queue_pos() <= k < lock.pos@ ==> foreign_dgram(#[trigger] feed_dgram(k), session_id)
//@ end
}

// ---- driver/streams: holders of the peer's critical streams ------------------------------------------
// tokio::sync::watch::Sender<Option<Settings>>: the last value sent (see unit driver_streams)
struct WatchSender { value: Option<Settings> }
impl WatchSender {
    fn borrow(&self) -> (r: &Option<Settings>) ensures *r == self.value { &self.value }
}
// ---- our control stream (C16: exactly one, typed Control, SETTINGS sent once as its first frame) ------
// stream_header.rs `StreamHeader::new_control()` is the Control header without session id (its encoding
// is under contract in units stream_header / frame_write and Kani p_stream_header_write_*)
struct StreamHeader { kind: StreamKind, session_id: Option<SessionId> }
impl StreamHeader {
    #[verifier::external_body]
    fn new_control() -> (r: StreamHeader) ensures r.kind == StreamKind::Control, r.session_id is None { unimplemented!() }
}
//@ extract wtransport-proto/src/bytes.rs >> mod r#async >> enum IoWriteError
//@ subst `enum IoWriteError` => `enum ProtoWriteError`
//@ end
struct StreamUniLocalQuic { id: u64 }
struct StreamUniLocalH3 { id: u64, header: StreamHeader }
uninterp spec fn open_uni_outcome(c: QuicConnection) -> Option<StreamUniLocalQuic>;
uninterp spec fn uni_upgrade_outcome(q: StreamUniLocalQuic, h: StreamHeader) -> Result<StreamUniLocalH3, ProtoWriteError>;
uninterp spec fn send_settings_outcome(s: StreamUniLocalH3) -> Result<(), DriverError>;
struct Stream;
impl Stream {
    #[verifier::external_body]
    fn open_uni(quic_connection: &QuicConnection) -> (r: Option<StreamUniLocalQuic>) ensures r == open_uni_outcome(*quic_connection) { unimplemented!() }
}
impl StreamUniLocalQuic {
    // writes the header (stream.rs unilocal upgrade_async: exact preamble, Kani / unit frame_write)
    #[verifier::external_body]
    fn upgrade(self, stream_header: StreamHeader) -> (r: Result<StreamUniLocalH3, ProtoWriteError>)
        ensures r == uni_upgrade_outcome(self, stream_header), r matches Ok(h) ==> h.header == stream_header,
    { unimplemented!() }
}
// driver/streams/settings.rs LocalSettingsStream (its run / send_settings error mapping: unit
// driver_streams; the SETTINGS content: unit settings): here a record of the stream it holds and of
// how many times SETTINGS were sent
struct LocalSettingsStream { stream: Option<StreamUniLocalH3>, sent: Ghost<nat> }
impl LocalSettingsStream {
    fn is_empty(&self) -> (r: bool) ensures r == (self.stream is None) { self.stream.is_none() }
    #[verifier::external_body]
    fn set_stream(&mut self, stream: StreamUniLocalH3)
        requires stream.header.kind == StreamKind::Control,
        ensures final(self).stream == Some(stream), final(self).sent == old(self).sent,
    { unimplemented!() }
    #[verifier::external_body]
    fn send_settings(&mut self) -> (r: Result<(), DriverError>)
        requires old(self).stream is Some,
        ensures r == send_settings_outcome(old(self).stream.unwrap()), final(self).stream == old(self).stream, final(self).sent@ == old(self).sent@ + 1,
    { unimplemented!() }
}
#[verifier::external_body]
struct ConnectStream { x: u8 }

//@ extract wtransport/src/driver/streams/settings.rs >> struct RemoteSettingsStream
//@ rename `watch::Sender<Option<Settings>>` => `WatchSender`
//@ end
//@ extract wtransport/src/driver/streams/qpack.rs >> struct RemoteQPackEncStream
//@ end
//@ extract wtransport/src/driver/streams/qpack.rs >> struct RemoteQPackDecStream
//@ end

impl RemoteSettingsStream {
//@ extract wtransport/src/driver/streams/settings.rs >> impl RemoteSettingsStream >> fn is_empty
//@ ensures r == (self.stream is None)
//@ end
//@ extract wtransport/src/driver/streams/settings.rs >> impl RemoteSettingsStream >> fn set_stream
//@ expand_matches
//@ requires stream.k == StreamKind::Control
//@ ensures final(self).stream == Some(stream), final(self).settings == old(self).settings
//@ end
}
impl RemoteQPackEncStream {
//@ extract wtransport/src/driver/streams/qpack.rs >> impl RemoteQPackEncStream >> fn is_empty
//@ ensures r == (self.stream is None)
//@ end
//@ extract wtransport/src/driver/streams/qpack.rs >> impl RemoteQPackEncStream >> fn set_stream
//@ expand_matches
//@ requires stream.k == StreamKind::QPackEncoder
//@ ensures final(self).stream == Some(stream), final(self).buffer == old(self).buffer
//@ end
}
impl RemoteQPackDecStream {
//@ extract wtransport/src/driver/streams/qpack.rs >> impl RemoteQPackDecStream >> fn is_empty
//@ ensures r == (self.stream is None)
//@ end
//@ extract wtransport/src/driver/streams/qpack.rs >> impl RemoteQPackDecStream >> fn set_stream
//@ expand_matches
//@ requires stream.k == StreamKind::QPackDecoder
//@ ensures final(self).stream == Some(stream), final(self).buffer == old(self).buffer
//@ end
}

// ---- driver/mod.rs: Worker (connection side), synchronous handlers -----------------------------------
//@ extract wtransport/src/driver/mod.rs >> mod worker >> struct Worker
//@ rename `quinn::Connection` => `QuicConnection`
//@ rename `mpsc::Sender` => `Sender`
//@ end

// RFC 9114 6.2.1 / RFC 9204 4.2: only one control stream and one QPACK encoder / decoder stream
// per peer; a second one is a connection error H3_STREAM_CREATION_ERROR. Reserved (GREASE) stream
// types are ignored.
spec fn uni_post(before: Worker, after: Worker, stream: StreamUniRemoteH3, r: Result<(), DriverError>) -> bool {
    match stream.k {
        StreamKind::Control =>
            if before.remote_settings_stream.stream is Some { r == Err::<(), DriverError>(DriverError::Proto(ErrorCode::StreamCreation)) }
            else { r is Ok && after.remote_settings_stream.stream == Some(stream)
                   && after.remote_qpack_enc_stream == before.remote_qpack_enc_stream && after.remote_qpack_dec_stream == before.remote_qpack_dec_stream },
        StreamKind::QPackEncoder =>
            if before.remote_qpack_enc_stream.stream is Some { r == Err::<(), DriverError>(DriverError::Proto(ErrorCode::StreamCreation)) }
            else { r is Ok && after.remote_qpack_enc_stream.stream == Some(stream)
                   && after.remote_settings_stream == before.remote_settings_stream && after.remote_qpack_dec_stream == before.remote_qpack_dec_stream },
        StreamKind::QPackDecoder =>
            if before.remote_qpack_dec_stream.stream is Some { r == Err::<(), DriverError>(DriverError::Proto(ErrorCode::StreamCreation)) }
            else { r is Ok && after.remote_qpack_dec_stream.stream == Some(stream)
                   && after.remote_settings_stream == before.remote_settings_stream && after.remote_qpack_enc_stream == before.remote_qpack_enc_stream },
        StreamKind::Exercise(_) => r is Ok && after.remote_settings_stream == before.remote_settings_stream
            && after.remote_qpack_enc_stream == before.remote_qpack_enc_stream && after.remote_qpack_dec_stream == before.remote_qpack_dec_stream,
        StreamKind::WebTransport => true,
    }
}

// RFC 9114 4.1 / 7.2.1 / 7.2.4 and RFC 9220: the first frame of a request stream must be HEADERS
// (DATA or SETTINGS: connection error H3_FRAME_UNEXPECTED; an undecodable field section: the
// decoder's connection error); a request that is not a WebTransport extended CONNECT is refused
// ON ITS STREAM (monitor on `stop`: H3_MESSAGE_ERROR for a malformed request - RFC 9114 4.1.2 -, that or
// H3_REQUEST_REJECTED for a well-formed request this endpoint does not serve) and the connection goes on (Ok); an admitted request is handed to the application queue.
spec fn expected_refusal(first_frame: Frame) -> Option<Refusal> {
    if first_frame.kind_spec() == FrameKind::Headers {
        match headers_of(first_frame.payload_spec()) {
            Ok(h) => match request_of(h) {
                Err(HeadersParseError::MethodNotConnect) => Some(Refusal::Unwanted),
                Err(HeadersParseError::SchemeNotHttps) => Some(Refusal::Unwanted),
                Err(HeadersParseError::ProtocolNotWebTransport) => Some(Refusal::Unwanted),
                // a mandatory pseudo-header is missing: malformed
                Err(_) => Some(Refusal::Malformed),
                Ok(_) => None,
            },
            Err(_) => None,
        }
    } else { None }
}

spec fn bi_post(stream: StreamBiRemoteH3, first_frame: Frame, r: Result<(), DriverError>) -> bool {
    match first_frame.kind_spec() {
        FrameKind::Data => r == Err::<(), DriverError>(DriverError::Proto(ErrorCode::FrameUnexpected)),
        FrameKind::Settings => r == Err::<(), DriverError>(DriverError::Proto(ErrorCode::FrameUnexpected)),
        FrameKind::Exercise(_) => r is Ok,
        FrameKind::WebTransport => true,
        FrameKind::Headers => match headers_of(first_frame.payload_spec()) {
            Err(code) => r == Err::<(), DriverError>(DriverError::Proto(code)),
            Ok(h) => match request_of(h) {
                Err(_) => r is Ok,
                Ok(req) => match try_send_outcome(StreamSession { id: stream.id, request: req }) {
                    Err(TrySendError::Closed(_)) => r == Err::<(), DriverError>(DriverError::NotConnected),
                    _ => r is Ok,
                },
            },
        },
    }
}

impl Worker {
//@ extract wtransport/src/driver/mod.rs >> mod worker >> impl Worker >> fn handle_uni_h3_stream
//@ requires stream.k != StreamKind::WebTransport
//@ ensures uni_post(*old(self), *final(self), stream, r)
//@ end

//@ extract wtransport/src/driver/mod.rs >> mod worker >> impl Worker >> fn handle_bi_h3_stream
//@ droplog
//@ rename `Frame<'static>` => `Frame`
//@ requires first_frame.kind_spec() != FrameKind::WebTransport, stream.expected@ == expected_refusal(first_frame)
//@ ensures
//@ | bi_post(stream, first_frame, r),
//@ end
}

// what the worker's event loop ends with (it only ever returns an error): unknown
uninterp spec fn run_outcome(w: Worker) -> DriverError;
// the CONNECTION_CLOSE the endpoint sends for the way the driver ended: the registry code of a
// protocol error (RFC 9114 8 / WT draft), H3_NO_ERROR after the peer closed the session, nothing
// when the connection is already gone
spec fn closes_for(e: DriverError) -> Seq<u64> {
    match e {
        DriverError::Proto(c) => seq![registry(c)],
        DriverError::ApplicationClosed(_) => seq![registry(ErrorCode::NoError)],
        DriverError::NotConnected => Seq::<u64>::empty(),
    }
}
impl Worker {
    #[verifier::external_body]
    fn run_impl(&mut self) -> (r: Result<(), DriverError>)
        ensures r == Err::<(), DriverError>(run_outcome(*old(self))),
            final(self).quic_connection == old(self).quic_connection, final(self).driver_result == old(self).driver_result,
    { unimplemented!() }

// C16: exactly one local control stream, opened with the Control header, SETTINGS sent exactly once
//@ extract wtransport/src/driver/mod.rs >> mod worker >> impl Worker >> fn open_and_send_settings
//@ deawait
//@ requires old(self).local_settings_stream.stream is None
//@ ensures
//@ | match open_uni_outcome(old(self).quic_connection) {
//@ |     None => r == Err::<(), DriverError>(DriverError::NotConnected),
//@ |     Some(q) => match uni_upgrade_outcome(q, StreamHeader { kind: StreamKind::Control, session_id: None }) {
//@ |         Err(ProtoWriteError::NotConnected) => r == Err::<(), DriverError>(DriverError::NotConnected),
//@ |         Err(ProtoWriteError::Stopped) => r == Err::<(), DriverError>(DriverError::Proto(ErrorCode::ClosedCriticalStream)),
//@ |         Ok(h) => final(self).local_settings_stream.stream == Some(h) && h.header.kind == StreamKind::Control
//@ |             && final(self).local_settings_stream.sent@ == old(self).local_settings_stream.sent@ + 1
//@ |             && r == send_settings_outcome(h),
//@ |     },
//@ | }
//@ end

// C12 / C04: whatever ends the driver, the code put on the wire is the prescribed one and the
// SAME error is what every pending and later operation is told (driver_result)
//@ extract wtransport/src/driver/mod.rs >> mod worker >> impl Worker >> fn run
//@ deawait
//@ droplog
//@ mutself
//@ resub `b""` => `empty_reason()`
//@ resub `\.expect_err\("[^"]*"\)` => `.unwrap_err()`
//@ requires self.driver_result.value@ is None
//@ epilogue proof { assert(this.quic_connection.closes@ =~= self.quic_connection.closes@ + closes_for(run_outcome(self))); assert(this.driver_result.value@ == Some(run_outcome(self))); }
//@ end
}

} // verus!

fn main() {}
