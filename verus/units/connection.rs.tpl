// Unit `connection`: the application-facing `Connection` of wtransport/src/connection.rs (C04 "every
// pending and subsequent operation reports the peer's close", C17 own-session traffic only, C09's
// attribution half): each operation asks the driver for ITS OWN session id and turns the driver's
// error into the connection error that names the same cause.
//
// `async fn` bodies by R9. The driver is an ASSUMED stand-in whose operations answer by unknown
// outcomes (uninterpreted functions of the driver and the session id asked for).
use vstd::prelude::*;

// verif: counter-overflow-undecided
verus! {

#[derive(Clone, Copy)]
struct VarInt { v: u64 }
#[derive(Clone, Copy)]
struct QVarInt { v: u64 }
#[derive(Clone, Copy)]
struct SessionId { v: u64 }
#[verifier::external_body]
fn varint_w2q(varint: VarInt) -> (r: QVarInt) ensures r.v == varint.v { unimplemented!() }

//@ extract wtransport-proto/src/error.rs >> enum ErrorCode
//@ end
struct ApplicationClose { code: VarInt, reason: Vec<u8> }
//@ extract wtransport/src/driver/mod.rs >> enum DriverError
//@ noderive
//@ end
//@ extract wtransport/src/error.rs >> enum SendDatagramError
//@ noderive
//@ end

struct H3Error { code: ErrorCode }
#[verifier::external_body]
struct QuicCloseReason { x: u8 }
enum ConnectionError { ApplicationClosed(ApplicationClose), LocalH3Error(H3Error), LocallyClosed, Transport(QuicCloseReason) }
// the QUIC connection handle; `closes` logs (code, reason) pairs it was told to close with
struct QuicConnection { closes: Ghost<Seq<(u64, Seq<u8>)>> }
impl QuicConnection {
    #[verifier::external_body]
    fn close(&self, error_code: QVarInt, reason: &[u8])
        requires close_allowed(error_code.v, reason@),
    { unimplemented!() }
}
// MONITOR for `Connection::close(code, reason)`: the handle is only ever closed with the caller's
// own code and reason
uninterp spec fn close_allowed(code: u64, reason: Seq<u8>) -> bool;

impl ConnectionError {
    // the QUIC-level cause when the driver only knows "not connected" (error.rs no_connect: the
    // connection's close reason, or LocallyClosed) - never a local H3 error or an application close
    // invented locally
    uninterp spec fn no_connect_spec(c: &QuicConnection) -> ConnectionError;
    #[verifier::external_body]
    fn no_connect(quic_connection: &QuicConnection) -> (r: ConnectionError) ensures r == Self::no_connect_spec(quic_connection) { unimplemented!() }

//@ extract wtransport/src/error.rs >> impl ConnectionError >> fn with_driver_error
//@ rename `quinn::Connection` => `QuicConnection`
//@ ensures r == cerr_of(driver_error, quic_connection)
//@ end

//@ extract wtransport/src/error.rs >> impl ConnectionError >> fn local_h3_error
//@ ensures r == ConnectionError::LocalH3Error(H3Error { code: error_code })
//@ end
}

// C04: the peer's close (exact code and reason) stays an application close; a protocol error stays
// that protocol error; only "not connected" is resolved against the QUIC connection
spec fn cerr_of(e: DriverError, c: &QuicConnection) -> ConnectionError {
    match e {
        DriverError::Proto(code) => ConnectionError::LocalH3Error(H3Error { code }),
        DriverError::ApplicationClosed(a) => ConnectionError::ApplicationClosed(a),
        DriverError::NotConnected => ConnectionError::no_connect_spec(c),
    }
}

// ---- assumed: driver and stream handles ---------------------------------------------------------------
struct QuicSendStream { id: u64 }
struct QuicRecvStream { id: u64 }
struct StreamUniRemoteWT { sid: SessionId, stream: QuicRecvStream }
impl StreamUniRemoteWT { fn into_stream(self) -> (r: QuicRecvStream) ensures r == self.stream { self.stream } }
struct StreamBiRemoteWT { sid: SessionId, stream: (QuicSendStream, QuicRecvStream) }
impl StreamBiRemoteWT { fn into_stream(self) -> (r: (QuicSendStream, QuicRecvStream)) ensures r == self.stream { self.stream } }
struct Datagram { sid: SessionId, payload: Vec<u8> }
struct OpeningUniStream { sid: SessionId }
struct OpeningBiStream { sid: SessionId }
struct SendStream(QuicSendStream);
impl SendStream { fn new(stream: QuicSendStream) -> (r: SendStream) ensures r.0 == stream { SendStream(stream) } }
struct RecvStream(QuicRecvStream);
impl RecvStream { fn new(stream: QuicRecvStream) -> (r: RecvStream) ensures r.0 == stream { RecvStream(stream) } }

struct Driver { id: u64 }
uninterp spec fn accept_uni_outcome(d: Driver, s: SessionId) -> Result<StreamUniRemoteWT, DriverError>;
uninterp spec fn accept_bi_outcome(d: Driver, s: SessionId) -> Result<StreamBiRemoteWT, DriverError>;
uninterp spec fn open_uni_outcome(d: Driver, s: SessionId) -> Result<OpeningUniStream, DriverError>;
uninterp spec fn open_bi_outcome(d: Driver, s: SessionId) -> Result<OpeningBiStream, DriverError>;
uninterp spec fn recv_dgram_outcome(d: Driver, s: SessionId) -> Result<Datagram, DriverError>;
uninterp spec fn send_dgram_outcome(d: Driver, s: SessionId, payload: Seq<u8>) -> Result<(), SendDatagramError>;
impl Driver {
    #[verifier::external_body]
    fn accept_uni(&self, session_id: SessionId) -> (r: Result<StreamUniRemoteWT, DriverError>) ensures r == accept_uni_outcome(*self, session_id) { unimplemented!() }
    #[verifier::external_body]
    fn accept_bi(&self, session_id: SessionId) -> (r: Result<StreamBiRemoteWT, DriverError>) ensures r == accept_bi_outcome(*self, session_id) { unimplemented!() }
    #[verifier::external_body]
    fn open_uni(&self, session_id: SessionId) -> (r: Result<OpeningUniStream, DriverError>) ensures r == open_uni_outcome(*self, session_id) { unimplemented!() }
    #[verifier::external_body]
    fn open_bi(&self, session_id: SessionId) -> (r: Result<OpeningBiStream, DriverError>) ensures r == open_bi_outcome(*self, session_id) { unimplemented!() }
    #[verifier::external_body]
    fn receive_datagram(&self, session_id: SessionId) -> (r: Result<Datagram, DriverError>) ensures r == recv_dgram_outcome(*self, session_id) { unimplemented!() }
    #[verifier::external_body]
    fn send_datagram(&self, session_id: SessionId, payload: &[u8]) -> (r: Result<(), SendDatagramError>) ensures r == send_dgram_outcome(*self, session_id, payload@) { unimplemented!() }
}

// connection.rs holds `driver: Arc<Driver>`; the Arc is transparent here
struct Connection { quic_connection: QuicConnection, driver: Driver, session_id: SessionId }

impl Connection {
//@ extract wtransport/src/connection.rs >> impl Connection >> fn accept_uni
//@ deawait
//@ resub `\|driver_error\|\s*\{\s*ConnectionError::with_driver_error\(driver_error, &self\.quic_connection\)\s*\}` => `|driver_error: DriverError| -> (o: ConnectionError) ensures o == cerr_of(driver_error, &self.quic_connection) { ConnectionError::with_driver_error(driver_error, &self.quic_connection) }`
//@ ensures
//@ | match accept_uni_outcome(self.driver, self.session_id) {
//@ |     Ok(s) => r matches Ok(rs) && rs.0 == s.stream,
//@ |     Err(e) => r matches Err(ce) && ce == cerr_of(e, &self.quic_connection),
//@ | }
//@ end

//@ extract wtransport/src/connection.rs >> impl Connection >> fn accept_bi
//@ deawait
//@ resub `\|driver_error\|\s*\{\s*ConnectionError::with_driver_error\(driver_error, &self\.quic_connection\)\s*\}` => `|driver_error: DriverError| -> (o: ConnectionError) ensures o == cerr_of(driver_error, &self.quic_connection) { ConnectionError::with_driver_error(driver_error, &self.quic_connection) }`
//@ ensures
//@ | match accept_bi_outcome(self.driver, self.session_id) {
//@ |     Ok(s) => r matches Ok(p) && p.0.0 == s.stream.0 && p.1.0 == s.stream.1,
//@ |     Err(e) => r matches Err(ce) && ce == cerr_of(e, &self.quic_connection),
//@ | }
//@ end

//@ extract wtransport/src/connection.rs >> impl Connection >> fn open_uni
//@ deawait
//@ resub `\|driver_error\|\s*\{\s*ConnectionError::with_driver_error\(driver_error, &self\.quic_connection\)\s*\}` => `|driver_error: DriverError| -> (o: ConnectionError) ensures o == cerr_of(driver_error, &self.quic_connection) { ConnectionError::with_driver_error(driver_error, &self.quic_connection) }`
//@ ensures
//@ | match open_uni_outcome(self.driver, self.session_id) {
//@ |     Ok(s) => r == Ok::<OpeningUniStream, ConnectionError>(s),
//@ |     Err(e) => r matches Err(ce) && ce == cerr_of(e, &self.quic_connection),
//@ | }
//@ end

//@ extract wtransport/src/connection.rs >> impl Connection >> fn open_bi
//@ deawait
//@ resub `\|driver_error\|\s*\{\s*ConnectionError::with_driver_error\(driver_error, &self\.quic_connection\)\s*\}` => `|driver_error: DriverError| -> (o: ConnectionError) ensures o == cerr_of(driver_error, &self.quic_connection) { ConnectionError::with_driver_error(driver_error, &self.quic_connection) }`
//@ ensures
//@ | match open_bi_outcome(self.driver, self.session_id) {
//@ |     Ok(s) => r == Ok::<OpeningBiStream, ConnectionError>(s),
//@ |     Err(e) => r matches Err(ce) && ce == cerr_of(e, &self.quic_connection),
//@ | }
//@ end

//@ extract wtransport/src/connection.rs >> impl Connection >> fn receive_datagram
//@ deawait
//@ resub `\|driver_error\|\s*\{\s*ConnectionError::with_driver_error\(driver_error, &self\.quic_connection\)\s*\}` => `|driver_error: DriverError| -> (o: ConnectionError) ensures o == cerr_of(driver_error, &self.quic_connection) { ConnectionError::with_driver_error(driver_error, &self.quic_connection) }`
//@ ensures
//@ | match recv_dgram_outcome(self.driver, self.session_id) {
//@ |     Ok(d) => r == Ok::<Datagram, ConnectionError>(d),
//@ |     Err(e) => r matches Err(ce) && ce == cerr_of(e, &self.quic_connection),
//@ | }
//@ end

//@ extract wtransport/src/connection.rs >> impl Connection >> fn send_datagram
//@ subst `send_datagram<D>(&self, payload: D) -> Result<(), SendDatagramError>
//@ |    where
//@ |        D: AsRef<[u8]>,` => `send_datagram(&self, payload: &[u8]) -> Result<(), SendDatagramError>`
//@ resub `payload\.as_ref\(\)` => `payload`
//@ ensures r == send_dgram_outcome(self.driver, self.session_id, payload@)
//@ end

//@ extract wtransport/src/connection.rs >> impl Connection >> fn close
//@ requires close_allowed(error_code.v, reason@)
//@ end

//@ extract wtransport/src/connection.rs >> impl Connection >> fn session_id
//@ ensures r == self.session_id
//@ end
}

} // verus!

fn main() {}
