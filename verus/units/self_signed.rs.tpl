// Unit `self_signed`: the self-signed identity builder of wtransport/src/tls.rs (C19, first
// sentence): key algorithm, validity window and subject alternative names handed to the
// certificate generator are exactly the requested ones; `Identity::self_signed` asks for a
// 14-day window starting now.
//
// Bodies are extracted from /repo. rcgen (key generation, parameter validation incl. typing each
// SAN as DNS name or IP address, signing, DER serialisation) and time are ASSUMED stand-ins that
// record what they were given.
use vstd::prelude::*;
use vstd::std_specs::ops::*;

// verif: counter-overflow-undecided
verus! {

// ---- assumed: time ---------------------------------------------------------------------------
#[verifier::external_body]
#[derive(Clone, Copy)]
struct OffsetDateTime { t: i128 }
#[verifier::external_body]
#[derive(Clone, Copy)]
struct Duration { n: i128 }
uninterp spec fn now_utc_spec() -> OffsetDateTime;
uninterp spec fn odt_plus(t: OffsetDateTime, d: Duration) -> OffsetDateTime;
uninterp spec fn duration_days(days: i64) -> Duration;
impl OffsetDateTime {
    // the clock: one reading per call; the builder takes exactly one
    #[verifier::external_body]
    fn now_utc() -> (r: OffsetDateTime) ensures r == now_utc_spec() { unimplemented!() }
}
impl Duration {
    #[verifier::external_body]
    fn days(days: i64) -> (r: Duration) ensures r == duration_days(days) { unimplemented!() }
}
impl AddSpecImpl<Duration> for OffsetDateTime {
    closed spec fn obeys_add_spec() -> bool { true }
    closed spec fn add_req(self, rhs: Duration) -> bool { true }
    closed spec fn add_spec(self, rhs: Duration) -> OffsetDateTime { odt_plus(self, rhs) }
}
impl core::ops::Add<Duration> for OffsetDateTime {
    type Output = OffsetDateTime;
    #[verifier::external_body]
    fn add(self, rhs: Duration) -> OffsetDateTime { unimplemented!() }
}

// ---- assumed: rcgen --------------------------------------------------------------------------
#[derive(Clone, Copy, PartialEq, Eq)]
enum SignatureAlgorithm { EcdsaP256Sha256, EcdsaP384Sha384, Ed25519, RsaSha256 }
exec static PKCS_ECDSA_P256_SHA256: SignatureAlgorithm ensures PKCS_ECDSA_P256_SHA256 == SignatureAlgorithm::EcdsaP256Sha256 { SignatureAlgorithm::EcdsaP256Sha256 }
exec static PKCS_ECDSA_P384_SHA384: SignatureAlgorithm ensures PKCS_ECDSA_P384_SHA384 == SignatureAlgorithm::EcdsaP384Sha384 { SignatureAlgorithm::EcdsaP384Sha384 }
exec static PKCS_ED25519: SignatureAlgorithm ensures PKCS_ED25519 == SignatureAlgorithm::Ed25519 { SignatureAlgorithm::Ed25519 }
exec static PKCS_RSA_SHA256: SignatureAlgorithm ensures PKCS_RSA_SHA256 == SignatureAlgorithm::RsaSha256 { SignatureAlgorithm::RsaSha256 }
#[derive(Debug)]
struct RcgenError;

#[verifier::external_body]
struct KeyPair { x: u8 }
impl KeyPair {
    uninterp spec fn alg(&self) -> SignatureAlgorithm;
    uninterp spec fn der(&self) -> Seq<u8>;
    // assumed: the four PKCS_* algorithms above are supported by the crypto provider
    #[verifier::external_body]
    fn generate_for(alg: &SignatureAlgorithm) -> (r: Result<KeyPair, RcgenError>)
        ensures r matches Ok(k) && k.alg() == *alg,
    { unimplemented!() }
    #[verifier::external_body]
    fn serialize_der(&self) -> (r: Vec<u8>) ensures r@ == self.der() { unimplemented!() }
}

enum DnType { CommonName, OrganizationName, CountryName }
struct DistinguishedName { entries: Vec<(DnType, Seq<char>)> }
impl DistinguishedName {
    #[verifier::external_body]
    fn new() -> (r: DistinguishedName) ensures r.entries@.len() == 0 { unimplemented!() }
    #[verifier::external_body]
    fn push(&mut self, ty: DnType, s: &str)
        ensures final(self).entries@ == old(self).entries@.push((ty, s@)),
    { unimplemented!() }
}

// which SAN lists rcgen accepts (each entry an IP address literal or an IA5 DNS name), and the
// typed list it derives - rcgen's concern
uninterp spec fn sans_valid(sans: Seq<String>) -> bool;
struct CertificateParams {
    distinguished_name: DistinguishedName,
    not_before: OffsetDateTime,
    not_after: OffsetDateTime,
    sans: Ghost<Seq<String>>,
}
impl CertificateParams {
    #[verifier::external_body]
    fn new(subject_alt_names: Vec<String>) -> (r: Result<CertificateParams, RcgenError>)
        ensures
            r is Ok <==> sans_valid(subject_alt_names@),
            r matches Ok(p) ==> p.sans@ == subject_alt_names@,
    { unimplemented!() }
    // assumed: signing with a freshly generated key pair of a supported algorithm succeeds
    #[verifier::external_body]
    fn self_signed(self, key_pair: &KeyPair) -> (r: Result<RcgenCertificate, RcgenError>)
        ensures r matches Ok(c) && c.params@ == self && c.key_alg@ == key_pair.alg() && c.key_der@ == key_pair.der(),
    { unimplemented!() }
}
struct RcgenCertificate { params: Ghost<CertificateParams>, key_alg: Ghost<SignatureAlgorithm>, key_der: Ghost<Seq<u8>>, d: CertificateDer }
impl RcgenCertificate {
    fn der(&self) -> (r: &CertificateDer) ensures *r == self.d { &self.d }
}

// ---- assumed: rustls-pki-types / tls.rs wrappers ------------------------------------------------
#[verifier::external_body]
struct CertificateDer { v: Vec<u8> }
impl Clone for CertificateDer {
    #[verifier::external_body]
    fn clone(&self) -> (r: CertificateDer) ensures r == *self { unimplemented!() }
}
struct Certificate(CertificateDer);
struct CertificateChain(Vec<Certificate>);
impl CertificateChain {
    #[verifier::external_body]
    fn single(certificate: Certificate) -> (r: CertificateChain) ensures r.0@ == seq![certificate] { unimplemented!() }
}
struct PrivateKey { pkcs8: Vec<u8> }
impl PrivateKey {
    #[verifier::external_body]
    fn from_der_pkcs8(der: Vec<u8>) -> (r: PrivateKey) ensures r.pkcs8@ == der@ { unimplemented!() }
}
struct InvalidSan;

//@ extract wtransport/src/tls.rs >> struct Identity
//@ end

impl Identity {
//@ extract wtransport/src/tls.rs >> impl Identity >> fn new
//@ ensures r.certificate_chain == certificate_chain, r.private_key == private_key
//@ end
}

// ---- tls.rs self_signed module ------------------------------------------------------------------
//@ extract wtransport/src/tls.rs >> mod self_signed >> struct SelfSignedIdentityBuilder
//@ end
//@ extract wtransport/src/tls.rs >> mod self_signed >> mod states >> struct WantsSans
//@ end
//@ extract wtransport/src/tls.rs >> mod self_signed >> mod states >> struct WantsValidityPeriod
//@ end
//@ extract wtransport/src/tls.rs >> mod self_signed >> mod states >> struct WantsNotAfter
//@ end
//@ extract wtransport/src/tls.rs >> mod self_signed >> mod states >> struct ReadyToBuild
//@ end

impl SelfSignedIdentityBuilder<WantsValidityPeriod> {
//@ extract wtransport/src/tls.rs >> mod self_signed >> impl SelfSignedIdentityBuilder<states::WantsValidityPeriod> >> fn from_now_utc
//@ rename `states::` => ``
//@ ensures r.0.sans == self.0.sans, r.0.not_before == now_utc_spec()
//@ end

//@ extract wtransport/src/tls.rs >> mod self_signed >> impl SelfSignedIdentityBuilder<states::WantsValidityPeriod> >> fn not_before
//@ rename `states::` => ``
//@ ensures r.0.sans == self.0.sans, r.0.not_before == not_before
//@ end

//@ extract wtransport/src/tls.rs >> mod self_signed >> impl SelfSignedIdentityBuilder<states::WantsValidityPeriod> >> fn validity_period
//@ rename `states::` => ``
//@ ensures r.0.sans == self.0.sans, r.0.not_before == not_before, r.0.not_after == not_after
//@ end
}

impl SelfSignedIdentityBuilder<WantsNotAfter> {
//@ extract wtransport/src/tls.rs >> mod self_signed >> impl SelfSignedIdentityBuilder<states::WantsNotAfter> >> fn not_after
//@ rename `states::` => ``
//@ ensures r.0.sans == self.0.sans, r.0.not_before == self.0.not_before, r.0.not_after == not_after
//@ end

//@ extract wtransport/src/tls.rs >> mod self_signed >> impl SelfSignedIdentityBuilder<states::WantsNotAfter> >> fn offset_from_not_before
//@ rename `states::` => ``
//@ rename `time::Duration` => `Duration`
//@ ensures r.0.sans == self.0.sans, r.0.not_before == self.0.not_before, r.0.not_after == odt_plus(self.0.not_before, offset)
//@ end

//@ extract wtransport/src/tls.rs >> mod self_signed >> impl SelfSignedIdentityBuilder<states::WantsNotAfter> >> fn validity_days
//@ rename `states::` => ``
//@ rename `time::Duration` => `Duration`
//@ ensures r.0.sans == self.0.sans, r.0.not_before == self.0.not_before, r.0.not_after == odt_plus(self.0.not_before, duration_days(days as i64))
//@ end
}

impl SelfSignedIdentityBuilder<ReadyToBuild> {
//@ extract wtransport/src/tls.rs >> mod self_signed >> impl SelfSignedIdentityBuilder<states::ReadyToBuild> >> fn build
//@ subst `.map_err(|_| InvalidSan)?` => `.map_err(|_e: RcgenError| -> (o: InvalidSan) { InvalidSan })?`
//@ ensures
//@ | r is Ok <==> sans_valid(self.0.sans@),
//@ | r matches Ok(id) ==> {
//@ |     &&& id.certificate_chain.0@.len() == 1
//@ |     &&& exists|c: RcgenCertificate| #![auto] {
//@ |         &&& id.certificate_chain.0@[0].0 == c.d
//@ |         // ECDSA P-256 key, and the identity's private key is that key pair
//@ |         &&& c.key_alg@ == SignatureAlgorithm::EcdsaP256Sha256
//@ |         &&& id.private_key.pkcs8@ == c.key_der@
//@ |         // exactly the requested SANs and validity window
//@ |         &&& c.params@.sans@ == self.0.sans@
//@ |         &&& c.params@.not_before == self.0.not_before
//@ |         &&& c.params@.not_after == self.0.not_after
//@ |     }
//@ | }
//@ end
}

// Identity::self_signed: `new().subject_alt_names(sans).from_now_utc().validity_days(14).build()`;
// the generic `subject_alt_names` (IntoIterator + map + collect: copies each string) is outside
// Verus; the rest of the chain is checked here on the extracted text with the SAN list already
// collected.
//@ extract wtransport/src/tls.rs >> impl Identity >> fn self_signed
//@ subst `self_signed<I, S>(subject_alt_names: I) -> Result<Self, error::InvalidSan>
//@ |    where
//@ |        I: IntoIterator<Item = S>,
//@ |        S: AsRef<str>,` => `self_signed(subject_alt_names: Vec<String>) -> Result<Identity, InvalidSan>`
//@ substw `self_signed::SelfSignedIdentityBuilder::new() .subject_alt_names(subject_alt_names)` => `SelfSignedIdentityBuilder(WantsValidityPeriod { sans: subject_alt_names })`
//@ ensures
//@ | r is Ok <==> sans_valid(subject_alt_names@),
//@ | r matches Ok(id) ==> {
//@ |     &&& id.certificate_chain.0@.len() == 1
//@ |     &&& exists|c: RcgenCertificate| #![auto] {
//@ |         &&& id.certificate_chain.0@[0].0 == c.d
//@ |         &&& c.key_alg@ == SignatureAlgorithm::EcdsaP256Sha256
//@ |         &&& id.private_key.pkcs8@ == c.key_der@
//@ |         &&& c.params@.sans@ == subject_alt_names@
//@ |         // valid from now, for 14 days
//@ |         &&& c.params@.not_before == now_utc_spec()
//@ |         &&& c.params@.not_after == odt_plus(now_utc_spec(), duration_days(14))
//@ |     }
//@ | }
//@ end

} // verus!

fn main() {}
