// Unit `settings`: `Settings::with_frame` (C11, C12, C13) for SETTINGS payloads of ANY length,
// against a reference interpreter of RFC 9114 §7.2.4: pairs of varints; reserved (HTTP/2) ids and
// duplicates are H3_SETTINGS_ERROR, a truncated pair is H3_FRAME_ERROR, unknown ids are ignored and
// leave the collected settings unchanged, GREASE ids are kept; the loop terminates.
use vstd::prelude::*;

verus! {

global size_of usize == 8;

spec const VARINT_MAX: u64 = 0x3fff_ffff_ffff_ffff;
spec fn varint_len_from_first(b: u8) -> int {
    if b / 64 == 0 { 1 } else if b / 64 == 1 { 2 } else if b / 64 == 2 { 4 } else { 8 }
}
spec fn varint_complete(s: Seq<u8>) -> bool { s.len() >= 1 && s.len() >= varint_len_from_first(s[0]) }
uninterp spec fn varint_val(s: Seq<u8>) -> u64;
spec fn is_grease(id: u64) -> bool { id >= 0x21 && (id - 0x21) % 0x1f == 0 }
spec fn is_reserved(id: u64) -> bool { id == 0x0 || id == 0x2 || id == 0x3 || id == 0x4 || id == 0x5 }

//@ extract wtransport-proto/src/varint.rs >> struct VarInt
//@ end
impl VarInt {
    spec fn wf(self) -> bool { self.0 <= VARINT_MAX }
}

//@ extract wtransport-proto/src/error.rs >> enum ErrorCode
//@ end

//@ extract wtransport-proto/src/frame.rs >> enum FrameKind
//@ end

//@ extract wtransport-proto/src/settings.rs >> enum ParseError
//@ end

//@ extract wtransport-proto/src/settings.rs >> enum SettingId
//@ end

// RFC 9114 §7.2.4.1 / §11.2.2, RFC 9204 §5, RFC 9220 §3, RFC 9297 §2.1.1, WT draft: the registry
spec fn spec_parse(id: u64) -> Result<SettingId, ParseError> {
    if is_reserved(id) { Err(ParseError::ReservedSetting) }
    else if is_grease(id) { Ok(SettingId::Exercise(VarInt(id))) }
    else if id == 0x01 { Ok(SettingId::QPackMaxTableCapacity) }
    else if id == 0x06 { Ok(SettingId::MaxFieldSectionSize) }
    else if id == 0x07 { Ok(SettingId::QPackBlockedStreams) }
    else if id == 0x08 { Ok(SettingId::EnableConnectProtocol) }
    else if id == 0x33 { Ok(SettingId::H3Datagram) }
    else if id == 0x2b60_3742 { Ok(SettingId::EnableWebTransport) }
    else if id == 0xc671_706a { Ok(SettingId::WebTransportMaxSessions) }
    else { Err(ParseError::UnknownSetting) }
}

impl SettingId {
// Contract proved by Kani on the real function for all 2^62 ids (c_settingid_parse,
// c_settingid_is_exercise, c_settingid_is_reserved); external_body here because Verus cannot
// translate `match` on struct-typed consts.
//@ extract wtransport-proto/src/settings.rs >> impl SettingId >> fn is_reserved
//@ ensures r == is_reserved(id.0)
//@ end

//@ extract wtransport-proto/src/settings.rs >> impl SettingId >> fn is_exercise
//@ ensures r == is_grease(id.0)
//@ end

//@ extract wtransport-proto/src/settings.rs >> impl SettingId >> fn parse
//@ attr #[verifier::external_body]
//@ ensures r == spec_parse(id.0)
//@ nocanary
//@ end
}

// registry constants referenced by the external_body `parse` (values checked by Kani: c_settingid_id)
//@ extract wtransport-proto/src/settings.rs >> mod setting_ids
//@ attr #[verifier::external]
//@ keepvis
//@ subst `use crate::varint::VarInt;` => `use super::VarInt;`
//@ end

impl VarInt {
//@ extract wtransport-proto/src/varint.rs >> impl VarInt >> fn from_u32
//@ keepconst
//@ ensures r.0 == value as u64
//@ end
//@ extract wtransport-proto/src/varint.rs >> impl VarInt >> fn into_inner
//@ keepconst
//@ ensures r == self.0
//@ end
}

// ---- assumed interfaces ---------------------------------------------------------------------------
// frame.rs Frame (verified in unit `frame`): only kind() and payload() are used
#[verifier::external_body]
struct Frame<'a> {
    p: &'a [u8],
}

impl<'a> Frame<'a> {
    uninterp spec fn is_settings(&self) -> bool;
    uninterp spec fn payload_view(&self) -> Seq<u8>;

    #[verifier::external_body]
    fn kind(&self) -> (r: FrameKind)
        ensures (r is Settings) == self.is_settings(),
    {
        unimplemented!()
    }

    #[verifier::external_body]
    fn payload(&self) -> (r: &[u8])
        ensures r@ == self.payload_view(),
    {
        unimplemented!()
    }
}

// bytes.rs BufferReader (Kani: p_buffer_reader_get_varint, p_buffer_reader_child)
#[verifier::external_body]
struct BufferReader<'a> {
    b: &'a [u8],
}

impl<'a> BufferReader<'a> {
    uninterp spec fn remaining(&self) -> Seq<u8>;

    #[verifier::external_body]
    fn new(buffer: &'a [u8]) -> (r: Self)
        ensures r.remaining() == buffer@,
    {
        unimplemented!()
    }

    #[verifier::external_body]
    fn capacity(&self) -> (r: usize)
        ensures r == self.remaining().len(),
    {
        unimplemented!()
    }

    #[verifier::external_body]
    fn get_varint(&mut self) -> (r: Option<VarInt>)
        ensures
            match r {
                Some(v) => varint_complete(old(self).remaining()) && v.0 == varint_val(old(self).remaining()) && v.wf()
                    && final(self).remaining() == old(self).remaining().skip(varint_len_from_first(old(self).remaining()[0])),
                None => !varint_complete(old(self).remaining()) && final(self).remaining() == old(self).remaining(),
            },
    {
        unimplemented!()
    }
}

// settings.rs `Settings(HashMap<SettingId, VarInt>)` with a ghost map view; std HashMap assumed
#[verifier::external_body]
struct Settings {
    m: std::collections::HashMap<u64, u64>,
}

impl Settings {
    uninterp spec fn view(&self) -> Map<SettingId, VarInt>;

    #[verifier::external_body]
    fn new() -> (r: Self)
        ensures r@ == Map::<SettingId, VarInt>::empty(),
    {
        unimplemented!()
    }
}

// assumed std contract of `HashMap::entry` + `Entry::{Vacant::insert, Occupied}`: insert if absent
// (returns true), otherwise leave the map unchanged (returns false)
#[verifier::external_body]
fn settings_insert_if_vacant(settings: &mut Settings, id: SettingId, value: VarInt) -> (inserted: bool)
    ensures
        inserted == !old(settings)@.contains_key(id),
        inserted ==> final(settings)@ == old(settings)@.insert(id, value),
        !inserted ==> final(settings)@ == old(settings)@,
{
    unimplemented!()
}

// ---- reference interpreter (RFC 9114 §7.2.4) ---------------------------------------------------
spec fn ref_settings(s: Seq<u8>, m: Map<SettingId, VarInt>) -> Result<Map<SettingId, VarInt>, ErrorCode>
    decreases s.len(),
{
    if s.len() == 0 {
        Ok(m)
    } else if !varint_complete(s) {
        Err(ErrorCode::Frame)
    } else {
        let n1 = varint_len_from_first(s[0]);
        let id = varint_val(s);
        let s2 = s.skip(n1);
        if !varint_complete(s2) {
            Err(ErrorCode::Frame)
        } else {
            let n2 = varint_len_from_first(s2[0]);
            let v = varint_val(s2);
            let s3 = s2.skip(n2);
            match spec_parse(id) {
                Err(ParseError::ReservedSetting) => Err(ErrorCode::Settings),
                Err(ParseError::UnknownSetting) => ref_settings(s3, m),
                Ok(k) => if m.contains_key(k) { Err(ErrorCode::Settings) } else { ref_settings(s3, m.insert(k, VarInt(v))) },
            }
        }
    }
}

impl Settings {
// R8: the 8-line `match settings.0.entry(setting_id) { Vacant(slot) => { slot.insert(value); }
// Occupied(_) => { return Err(ErrorCode::Settings); } }` block (HashMap entry API, not expressible
// in Verus) is replaced by a call with the assumed contract above.
//@ extract wtransport-proto/src/settings.rs >> impl Settings >> fn with_frame
//@ subst `match settings.0.entry(setting_id) {
//@ |                    hash_map::Entry::Vacant(slot) => {
//@ |                        slot.insert(value);
//@ |                    }
//@ |                    hash_map::Entry::Occupied(_) => {
//@ |                        return Err(ErrorCode::Settings);
//@ |                    }
//@ |                }` => `{ if !settings_insert_if_vacant(&mut settings, setting_id, value) { return Err(ErrorCode::Settings); } }`
//@ requires frame.is_settings()
//@ loop 1 invariant ref_settings(buffer_reader.remaining(), settings@) == ref_settings(frame.payload_view(), Map::<SettingId, VarInt>::empty())
//@ loop 1 decreases buffer_reader.remaining().len()
//@ ensures
//@ | match ref_settings(frame.payload_view(), Map::<SettingId, VarInt>::empty()) {
//@ |     Ok(m) => r matches Ok(s) && s@ == m,
//@ |     Err(e) => r matches Err(e2) && e2 == e,
//@ | }
//@ end
}

// C13: an unknown setting id anywhere in the payload does not change the outcome: one reference step
proof fn lemma_unknown_setting_is_ignored(s: Seq<u8>, m: Map<SettingId, VarInt>)
    requires
        varint_complete(s),
        varint_complete(s.skip(varint_len_from_first(s[0]))),
        spec_parse(varint_val(s)) == Err::<SettingId, ParseError>(ParseError::UnknownSetting),
    ensures
        ref_settings(s, m) == ref_settings(
            s.skip(varint_len_from_first(s[0])).skip(varint_len_from_first(s.skip(varint_len_from_first(s[0]))[0])), m),
{
}

// ---- SettingsBuilder and the endpoint's local SETTINGS (C16) ------------------------------------
// assumed std contract of `HashMap::insert` (insert or overwrite)
#[verifier::external_body]
fn settings_insert(settings: &mut Settings, id: SettingId, value: VarInt)
    ensures final(settings)@ == old(settings)@.insert(id, value),
{
    unimplemented!()
}

//@ extract wtransport-proto/src/settings.rs >> struct SettingsBuilder
//@ end

impl Settings {
//@ extract wtransport-proto/src/settings.rs >> impl Settings >> fn builder
//@ ensures r.0@ == Map::<SettingId, VarInt>::empty()
//@ end
}

impl SettingsBuilder {
//@ extract wtransport-proto/src/settings.rs >> impl SettingsBuilder >> fn qpack_max_table_capacity
//@ substw `self.0 .0.insert(` => `settings_insert(&mut self.0, `
//@ resub `&mut self\.0` => `&mut this.0`
//@ resub `\(mut self\b` => `(self`
//@ resub `\n(\s*)self\n` => `\n\1this\n`
//@ prologue let mut this = self;
//@ ensures r.0@ == self.0@.insert(SettingId::QPackMaxTableCapacity, value)
//@ end

//@ extract wtransport-proto/src/settings.rs >> impl SettingsBuilder >> fn qpack_blocked_streams
//@ substw `self.0 .0.insert(` => `settings_insert(&mut self.0, `
//@ resub `&mut self\.0` => `&mut this.0`
//@ resub `\(mut self\b` => `(self`
//@ resub `\n(\s*)self\n` => `\n\1this\n`
//@ prologue let mut this = self;
//@ ensures r.0@ == self.0@.insert(SettingId::QPackBlockedStreams, value)
//@ end

//@ extract wtransport-proto/src/settings.rs >> impl SettingsBuilder >> fn enable_connect_protocol
//@ substw `self.0 .0 .insert(` => `settings_insert(&mut self.0, `
//@ resub `&mut self\.0` => `&mut this.0`
//@ resub `\(mut self\b` => `(self`
//@ resub `\n(\s*)self\n` => `\n\1this\n`
//@ prologue let mut this = self;
//@ ensures r.0@ == self.0@.insert(SettingId::EnableConnectProtocol, VarInt(1))
//@ end

//@ extract wtransport-proto/src/settings.rs >> impl SettingsBuilder >> fn enable_webtransport
//@ substw `self.0 .0 .insert(` => `settings_insert(&mut self.0, `
//@ resub `&mut self\.0` => `&mut this.0`
//@ resub `\(mut self\b` => `(self`
//@ resub `\n(\s*)self\n` => `\n\1this\n`
//@ prologue let mut this = self;
//@ ensures r.0@ == self.0@.insert(SettingId::EnableWebTransport, VarInt(1))
//@ end

//@ extract wtransport-proto/src/settings.rs >> impl SettingsBuilder >> fn enable_h3_datagrams
//@ substw `self.0 .0.insert(` => `settings_insert(&mut self.0, `
//@ resub `&mut self\.0` => `&mut this.0`
//@ resub `\(mut self\b` => `(self`
//@ resub `\n(\s*)self\n` => `\n\1this\n`
//@ prologue let mut this = self;
//@ ensures r.0@ == self.0@.insert(SettingId::H3Datagram, VarInt(1))
//@ end

//@ extract wtransport-proto/src/settings.rs >> impl SettingsBuilder >> fn webtransport_max_sessions
//@ substw `self.0 .0.insert(` => `settings_insert(&mut self.0, `
//@ resub `&mut self\.0` => `&mut this.0`
//@ resub `\(mut self\b` => `(self`
//@ resub `\n(\s*)self\n` => `\n\1this\n`
//@ prologue let mut this = self;
//@ ensures r.0@ == self.0@.insert(SettingId::WebTransportMaxSessions, value)
//@ end

//@ extract wtransport-proto/src/settings.rs >> impl SettingsBuilder >> fn build
//@ ensures r == self.0
//@ end
}

// What the endpoint advertises on its control stream (driver: LocalSettingsStream::empty builds the
// SETTINGS it later sends): WebTransport, HTTP/3 datagrams and extended CONNECT enabled, a
// zero-capacity QPACK dynamic table with no blocked streams, one session. The struct literal
// wrapping the settings into the stream object is dropped (R8). (`mut self` receivers of the builder
// methods are re-expressed as `let mut this = self;` - Verus does not support `mut self`.)
//@ extract wtransport/src/driver/streams/settings.rs >> impl LocalSettingsStream >> fn empty
//@ subst `fn empty() -> Self` => `fn local_settings() -> Settings`
//@ substw `Self { stream: None, settings, }` => `settings`
//@ ensures
//@ | r@ == Map::<SettingId, VarInt>::empty()
//@ |     .insert(SettingId::QPackMaxTableCapacity, VarInt(0))
//@ |     .insert(SettingId::QPackBlockedStreams, VarInt(0))
//@ |     .insert(SettingId::EnableConnectProtocol, VarInt(1))
//@ |     .insert(SettingId::EnableWebTransport, VarInt(1))
//@ |     .insert(SettingId::H3Datagram, VarInt(1))
//@ |     .insert(SettingId::WebTransportMaxSessions, VarInt(1))
//@ end

} // verus!

fn main() {}
