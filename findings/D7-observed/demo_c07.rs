//! Demonstration for C07: head-of-line blocking of peer-opened streams in the
//! driver worker (`wtransport/src/driver/mod.rs`, `Worker::accept_bi` /
//! `Worker::accept_uni`).
//!
//! Public API only. A wtransport SERVER on loopback (self-signed identity) whose
//! application keeps calling `accept_bi()` / `accept_uni()` / `receive_datagram()`
//! in loops and records everything it reads. The CLIENT is a normal wtransport
//! client which additionally uses `Connection::quic_connection()` (feature
//! `quinn`) to open raw QUIC streams that carry only a partial preamble.
//!
//! Tests named `property_*` assert the property at stake ("a stalled stream never
//! prevents other streams from being accepted and read"); they FAIL when the
//! defect is present. Tests named `control_*` are the same scenarios without the
//! stalled streams (or below the queue capacity) and must pass. Each test prints
//! `OBSERVED` lines describing what happened.
//!
//! Run:
//! cargo test -p wtransport --offline --features quinn --test demo_c07 -- --nocapture --test-threads=1

use std::net::SocketAddr;
use std::sync::Arc;
use std::time::Duration;
use std::time::Instant;
use tokio::sync::mpsc;
use tokio::time::timeout;
use wtransport::quinn;
use wtransport::ClientConfig;
use wtransport::Connection;
use wtransport::Endpoint;
use wtransport::Identity;
use wtransport::ServerConfig;
use wtransport::VarInt;

const WAIT: Duration = Duration::from_secs(3);

#[derive(Debug, Clone, PartialEq, Eq)]
enum Event {
    /// `accept_bi()` returned a stream (QUIC stream id).
    BiAccepted(u64),
    /// Application read the whole content of an accepted bidi stream.
    BiData(u64, Vec<u8>),
    /// `accept_uni()` returned a stream (QUIC stream id).
    UniAccepted(u64),
    /// Application read the whole content of an accepted uni stream.
    UniData(u64, Vec<u8>),
    /// `receive_datagram()` returned a datagram.
    Dgram(Vec<u8>),
    /// `Connection::closed()` resolved on the server.
    Closed(String),
}

struct Server {
    addr: SocketAddr,
    cert_hash: wtransport::tls::Sha256Digest,
    events: mpsc::UnboundedReceiver<(Duration, Event)>,
}

/// Server whose application accepts ONE session and then keeps accepting
/// everything, forever, never blocking one stream on another.
fn spawn_server() -> Server {
    // Optional: DEMO_C07_TRACE=1 prints the driver's own trace lines
    // ("H3 bi queue capacity: N" is logged right before `reserve_owned()`).
    if std::env::var_os("DEMO_C07_TRACE").is_some() {
        let _ = tracing_subscriber::fmt()
            .with_env_filter("wtransport=trace")
            .with_test_writer()
            .try_init();
    }

    let identity = Identity::self_signed(["localhost", "127.0.0.1"]).unwrap();
    let cert_hash = identity.certificate_chain().as_slice()[0].hash();

    let config = ServerConfig::builder()
        .with_bind_address("127.0.0.1:0".parse().unwrap())
        .with_identity(identity)
        .build();

    let endpoint = Endpoint::server(config).unwrap();
    let addr = endpoint.local_addr().unwrap();
    let (tx, events) = mpsc::unbounded_channel();

    tokio::spawn(async move {
        let incoming = endpoint.accept().await;
        let request = incoming.await.unwrap();
        let conn = Arc::new(request.accept().await.unwrap());
        let t0 = Instant::now();

        // bidi accept loop
        {
            let conn = conn.clone();
            let tx = tx.clone();
            tokio::spawn(async move {
                loop {
                    let Ok((mut send, mut recv)) = conn.accept_bi().await else {
                        return;
                    };
                    let id = recv.id().into_u64();
                    let _ = tx.send((t0.elapsed(), Event::BiAccepted(id)));
                    let tx = tx.clone();
                    // Every stream is read in its own task: the application
                    // never stops accepting.
                    tokio::spawn(async move {
                        let mut data = Vec::new();
                        let mut buf = [0u8; 1024];
                        while let Ok(Some(n)) = recv.read(&mut buf).await {
                            data.extend_from_slice(&buf[..n]);
                        }
                        let _ = send.write_all(&data).await; // echo
                        let _ = send.finish().await;
                        let _ = tx.send((t0.elapsed(), Event::BiData(id, data)));
                    });
                }
            });
        }

        // uni accept loop
        {
            let conn = conn.clone();
            let tx = tx.clone();
            tokio::spawn(async move {
                loop {
                    let Ok(mut recv) = conn.accept_uni().await else {
                        return;
                    };
                    let id = recv.id().into_u64();
                    let _ = tx.send((t0.elapsed(), Event::UniAccepted(id)));
                    let tx = tx.clone();
                    tokio::spawn(async move {
                        let mut data = Vec::new();
                        let mut buf = [0u8; 1024];
                        while let Ok(Some(n)) = recv.read(&mut buf).await {
                            data.extend_from_slice(&buf[..n]);
                        }
                        let _ = tx.send((t0.elapsed(), Event::UniData(id, data)));
                    });
                }
            });
        }

        // datagram loop
        {
            let conn = conn.clone();
            let tx = tx.clone();
            tokio::spawn(async move {
                while let Ok(dgram) = conn.receive_datagram().await {
                    let _ = tx.send((t0.elapsed(), Event::Dgram(dgram.payload().to_vec())));
                }
            });
        }

        let reason = conn.closed().await;
        let _ = tx.send((t0.elapsed(), Event::Closed(format!("{reason}"))));
        // keep the endpoint alive a bit so that the close handshake completes
        tokio::time::sleep(Duration::from_millis(200)).await;
        drop(endpoint);
    });

    Server {
        addr,
        cert_hash,
        events,
    }
}

async fn connect_client(server: &Server) -> (Endpoint<wtransport::endpoint::endpoint_side::Client>, Connection) {
    let config = ClientConfig::builder()
        .with_bind_address("127.0.0.1:0".parse().unwrap())
        .with_server_certificate_hashes([server.cert_hash.clone()])
        .build();
    let endpoint = Endpoint::client(config).unwrap();
    let url = format!("https://127.0.0.1:{}/", server.addr.port());
    let conn = timeout(WAIT, endpoint.connect(url))
        .await
        .expect("connect timed out")
        .expect("connect failed");
    assert_eq!(conn.session_id().into_u64(), 0, "session id must be 0");
    (endpoint, conn)
}

/// Waits (at most `WAIT`) for an event satisfying `pred`; other events are
/// printed and skipped.
async fn wait_for(
    server: &mut Server,
    what: &str,
    pred: impl Fn(&Event) -> bool,
) -> Option<(Duration, Event)> {
    let start = Instant::now();
    let deadline = tokio::time::Instant::now() + WAIT;
    loop {
        match tokio::time::timeout_at(deadline, server.events.recv()).await {
            Ok(Some((t, ev))) => {
                println!("    server app event @{:>7.1?}: {:?}", t, show(&ev));
                if pred(&ev) {
                    println!(
                        "  OBSERVED: {what}: DELIVERED after {:.0?}",
                        start.elapsed()
                    );
                    return Some((t, ev));
                }
            }
            Ok(None) => {
                println!("  OBSERVED: {what}: server event channel closed");
                return None;
            }
            Err(_) => {
                println!(
                    "  OBSERVED: {what}: NOT DELIVERED within {:?} (timeout)",
                    WAIT
                );
                return None;
            }
        }
    }
}

fn qid(id: quinn::StreamId) -> u64 {
    quinn::VarInt::from(id).into_inner()
}

fn show(ev: &Event) -> String {
    match ev {
        Event::BiData(id, d) => format!("BiData(stream {id}, {:?})", String::from_utf8_lossy(d)),
        Event::UniData(id, d) => format!("UniData(stream {id}, {:?})", String::from_utf8_lossy(d)),
        Event::Dgram(d) => format!("Dgram({:?})", String::from_utf8_lossy(d)),
        other => format!("{other:?}"),
    }
}

struct Outcome {
    later_stream_delivered: bool,
    datagram_delivered: bool,
    /// After the stalled streams completed their preamble: was everything delivered?
    recovered: Option<bool>,
    close_seen: bool,
}

/// Scenario A. `stalled_prefix`: bytes written on raw bidi stream #1 before the
/// proper WebTransport bidi stream #2 is opened; `None` = no stalled stream
/// (control). An empty prefix means "the peer opened the stream but sent nothing"
/// (the stream becomes visible to the server because a later stream id is used).
async fn scenario_bidi(
    stalled_prefix: Option<&[u8]>,
    raw_proper: bool,
    close_while_stalled: bool,
) -> Outcome {
    let mut server = spawn_server();
    let (_ep, conn) = connect_client(&server).await;
    let quic: quinn::Connection = conn.quic_connection().clone();

    // stream #1: stalled raw bidi stream
    let mut stalled = None;
    if let Some(prefix) = stalled_prefix {
        let (mut s, r) = quic.open_bi().await.unwrap();
        if !prefix.is_empty() {
            s.write_all(prefix).await.unwrap();
        }
        println!(
            "  client: raw bidi stream (QUIC id {}) opened, wrote {:02x?}, kept open",
            qid(s.id()),
            prefix
        );
        stalled = Some((s, r));
        tokio::time::sleep(Duration::from_millis(200)).await;
    }

    // stream #2: proper WebTransport bidi stream carrying "hello"
    let mut _keep = None;
    if raw_proper {
        let (mut s, r) = quic.open_bi().await.unwrap();
        s.write_all(&[0x40, 0x41, 0x00]).await.unwrap();
        s.write_all(b"hello").await.unwrap();
        s.finish().unwrap();
        println!(
            "  client: raw WT bidi stream (QUIC id {}) : 40 41 00 + \"hello\", FIN",
            qid(s.id())
        );
        _keep = Some((s, r));
    } else {
        let (mut s, r) = timeout(WAIT, async { conn.open_bi().await.unwrap().await.unwrap() })
            .await
            .expect("client open_bi timed out");
        s.write_all(b"hello").await.unwrap();
        s.finish().await.unwrap();
        println!(
            "  client: wtransport open_bi() stream (QUIC id {}) : \"hello\", FIN",
            s.id().into_u64()
        );
        // keep recv half alive
        tokio::spawn(async move {
            let mut r = r;
            let mut buf = [0u8; 64];
            while let Ok(Some(_)) = r.read(&mut buf).await {}
        });
    }

    let later_stream_delivered = wait_for(
        &mut server,
        "later bidi stream with \"hello\" reaches the server application",
        |ev| matches!(ev, Event::BiData(_, d) if d == b"hello"),
    )
    .await
    .is_some();

    // datagram while (possibly) stalled
    conn.send_datagram(b"dgram").unwrap();
    let datagram_delivered = wait_for(&mut server, "datagram reaches the server application", |ev| {
        matches!(ev, Event::Dgram(d) if d == b"dgram")
    })
    .await
    .is_some();

    // recovery: complete the preamble of the stalled stream
    let mut recovered = None;
    if let (Some((s, _r)), false) = (stalled.as_mut(), close_while_stalled) {
        let prefix = stalled_prefix.unwrap();
        let full = [0x40u8, 0x41, 0x00];
        s.write_all(&full[prefix.len()..]).await.unwrap();
        s.write_all(b"late").await.unwrap();
        s.finish().unwrap();
        println!("  client: stalled stream now completes its preamble + \"late\", FIN");
        let mut seen_late = false;
        let mut seen_hello = later_stream_delivered;
        let deadline = tokio::time::Instant::now() + WAIT;
        while !(seen_late && seen_hello) {
            match tokio::time::timeout_at(deadline, server.events.recv()).await {
                Ok(Some((t, ev))) => {
                    println!("    server app event @{:>7.1?}: {:?}", t, show(&ev));
                    match ev {
                        Event::BiData(_, d) if d == b"hello" => seen_hello = true,
                        Event::BiData(_, d) if d == b"late" => seen_late = true,
                        _ => {}
                    }
                }
                _ => break,
            }
        }
        println!(
            "  OBSERVED: after un-stall: formerly stalled stream delivered: {seen_late}, later stream delivered: {seen_hello}"
        );
        recovered = Some(seen_late && seen_hello);
    }

    conn.close(VarInt::from_u32(7), b"bye");
    let close_seen = wait_for(&mut server, "session close seen by the server application", |ev| {
        matches!(ev, Event::Closed(_))
    })
    .await
    .is_some();

    Outcome {
        later_stream_delivered,
        datagram_delivered,
        recovered,
        close_seen,
    }
}

/// Scenario B. `n_stalled` raw uni streams carrying only `0x40` (first byte of
/// the stream type varint `40 54`), then one proper WebTransport uni stream
/// (`40 54 00` + "hello").
async fn scenario_uni(n_stalled: usize, close_while_stalled: bool) -> Outcome {
    let mut server = spawn_server();
    let (_ep, conn) = connect_client(&server).await;
    let quic: quinn::Connection = conn.quic_connection().clone();
    // let the client's own control stream be processed
    tokio::time::sleep(Duration::from_millis(200)).await;

    let mut stalled = Vec::new();
    for _ in 0..n_stalled {
        let mut s = quic.open_uni().await.unwrap();
        s.write_all(&[0x40]).await.unwrap();
        println!(
            "  client: raw uni stream (QUIC id {}) opened, wrote [40], kept open",
            qid(s.id())
        );
        stalled.push(s);
    }
    tokio::time::sleep(Duration::from_millis(200)).await;

    let mut proper = quic.open_uni().await.unwrap();
    proper.write_all(&[0x40, 0x54, 0x00]).await.unwrap();
    proper.write_all(b"hello").await.unwrap();
    proper.finish().unwrap();
    println!(
        "  client: raw WT uni stream (QUIC id {}) : 40 54 00 + \"hello\", FIN",
        qid(proper.id())
    );

    let later_stream_delivered = wait_for(
        &mut server,
        "later uni stream with \"hello\" reaches the server application",
        |ev| matches!(ev, Event::UniData(_, d) if d == b"hello"),
    )
    .await
    .is_some();

    conn.send_datagram(b"dgram").unwrap();
    let datagram_delivered = wait_for(&mut server, "datagram reaches the server application", |ev| {
        matches!(ev, Event::Dgram(d) if d == b"dgram")
    })
    .await
    .is_some();

    let mut recovered = None;
    if n_stalled > 0 && !close_while_stalled {
        for (i, s) in stalled.iter_mut().enumerate() {
            s.write_all(&[0x54, 0x00]).await.unwrap();
            s.write_all(format!("late{i}").as_bytes()).await.unwrap();
            s.finish().unwrap();
        }
        println!("  client: all stalled uni streams now complete their header + \"lateN\", FIN");
        let mut ok = true;
        let mut seen_hello = later_stream_delivered;
        let mut seen_late = 0;
        let deadline = tokio::time::Instant::now() + WAIT;
        while seen_late < n_stalled || !seen_hello {
            match tokio::time::timeout_at(deadline, server.events.recv()).await {
                Ok(Some((t, ev))) => {
                    println!("    server app event @{:>7.1?}: {:?}", t, show(&ev));
                    match ev {
                        Event::UniData(_, d) if d == b"hello" => seen_hello = true,
                        Event::UniData(_, d) if d.starts_with(b"late") => seen_late += 1,
                        _ => {}
                    }
                }
                _ => {
                    ok = false;
                    break;
                }
            }
        }
        println!(
            "  OBSERVED: after un-stall: {seen_late}/{n_stalled} formerly stalled streams delivered, later stream delivered: {seen_hello}"
        );
        recovered = Some(ok);
    }

    conn.close(VarInt::from_u32(7), b"bye");
    let close_seen = wait_for(&mut server, "session close seen by the server application", |ev| {
        matches!(ev, Event::Closed(_))
    })
    .await
    .is_some();

    Outcome {
        later_stream_delivered,
        datagram_delivered,
        recovered,
        close_seen,
    }
}

fn check_side_properties(o: &Outcome) {
    assert!(o.datagram_delivered, "datagram was not delivered");
    assert!(o.close_seen, "session close was not seen by the server");
    if let Some(r) = o.recovered {
        assert!(r, "streams were not delivered even after the stalled ones completed");
    }
}

// ---------------------------------------------------------------- controls

#[tokio::test(flavor = "multi_thread", worker_threads = 4)]
async fn a0_control_bidi_no_stalled_stream() {
    println!("\n=== A0 control: bidi, no stalled stream, wtransport open_bi() ===");
    let o = scenario_bidi(None, false, false).await;
    check_side_properties(&o);
    assert!(o.later_stream_delivered);
}

#[tokio::test(flavor = "multi_thread", worker_threads = 4)]
async fn a0_control_bidi_no_stalled_stream_raw() {
    println!("\n=== A0 control: bidi, no stalled stream, raw 40 41 00 ===");
    let o = scenario_bidi(None, true, false).await;
    check_side_properties(&o);
    assert!(o.later_stream_delivered);
}

#[tokio::test(flavor = "multi_thread", worker_threads = 4)]
async fn b0_control_uni_no_stalled_stream() {
    println!("\n=== B0 control: uni, no stalled stream ===");
    let o = scenario_uni(0, false).await;
    check_side_properties(&o);
    assert!(o.later_stream_delivered);
}

#[tokio::test(flavor = "multi_thread", worker_threads = 4)]
async fn b0_control_uni_three_stalled_streams_below_capacity() {
    println!("\n=== B0 control: uni, THREE stalled streams (queue capacity is 4) ===");
    let o = scenario_uni(3, false).await;
    check_side_properties(&o);
    assert!(o.later_stream_delivered);
}

// -------------------------------------------------------------- properties

#[tokio::test(flavor = "multi_thread", worker_threads = 4)]
async fn a1_property_bidi_one_stalled_stream_partial_signal() {
    println!("\n=== A1 property: bidi, ONE stalled stream carrying only 0x40; later stream via open_bi() ===");
    let o = scenario_bidi(Some(&[0x40]), false, false).await;
    check_side_properties(&o);
    assert!(
        o.later_stream_delivered,
        "HEAD-OF-LINE BLOCKING: bidi stream #2 was not delivered while stream #1 was stalled"
    );
}

#[tokio::test(flavor = "multi_thread", worker_threads = 4)]
async fn a2_property_bidi_one_stalled_stream_partial_signal_raw() {
    println!("\n=== A2 property: bidi, ONE stalled stream carrying only 0x40; later stream raw 40 41 00 ===");
    let o = scenario_bidi(Some(&[0x40]), true, false).await;
    check_side_properties(&o);
    assert!(
        o.later_stream_delivered,
        "HEAD-OF-LINE BLOCKING: bidi stream #2 was not delivered while stream #1 was stalled"
    );
}

#[tokio::test(flavor = "multi_thread", worker_threads = 4)]
async fn a3_property_bidi_one_silent_stream() {
    println!("\n=== A3 property: bidi, ONE opened stream on which the peer sent NOTHING ===");
    let o = scenario_bidi(Some(&[]), true, false).await;
    check_side_properties(&o);
    assert!(
        o.later_stream_delivered,
        "HEAD-OF-LINE BLOCKING: bidi stream #2 was not delivered while stream #1 was silent"
    );
}

#[tokio::test(flavor = "multi_thread", worker_threads = 4)]
async fn a4_property_bidi_one_stalled_stream_close_while_stalled() {
    println!("\n=== A4 property: bidi, ONE stalled stream (0x40), datagram + close WHILE still stalled ===");
    let o = scenario_bidi(Some(&[0x40]), true, true).await;
    check_side_properties(&o);
    assert!(
        o.later_stream_delivered,
        "HEAD-OF-LINE BLOCKING: bidi stream #2 was not delivered while stream #1 was stalled"
    );
}

#[tokio::test(flavor = "multi_thread", worker_threads = 4)]
async fn b1_property_uni_four_stalled_streams() {
    println!("\n=== B1 property: uni, FOUR stalled streams carrying only 0x40 ===");
    let o = scenario_uni(4, false).await;
    check_side_properties(&o);
    assert!(
        o.later_stream_delivered,
        "HEAD-OF-LINE BLOCKING: uni stream was not delivered while 4 streams were stalled"
    );
}

#[tokio::test(flavor = "multi_thread", worker_threads = 4)]
async fn b2_property_uni_five_stalled_streams() {
    println!("\n=== B2 property: uni, FIVE stalled streams carrying only 0x40 ===");
    let o = scenario_uni(5, false).await;
    check_side_properties(&o);
    assert!(
        o.later_stream_delivered,
        "HEAD-OF-LINE BLOCKING: uni stream was not delivered while 5 streams were stalled"
    );
}

#[tokio::test(flavor = "multi_thread", worker_threads = 4)]
async fn b3_property_uni_four_stalled_streams_close_while_stalled() {
    println!("\n=== B3 property: uni, FOUR stalled streams, datagram + close WHILE still stalled ===");
    let o = scenario_uni(4, true).await;
    check_side_properties(&o);
    assert!(
        o.later_stream_delivered,
        "HEAD-OF-LINE BLOCKING: uni stream was not delivered while 4 streams were stalled"
    );
}
