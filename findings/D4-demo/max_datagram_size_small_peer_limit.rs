//! End-to-end regression test for `Connection::max_datagram_size()` when the peer advertises a
//! very small QUIC `max_datagram_frame_size` transport parameter.
//!
//! `quinn::Connection::max_datagram_size()` returns
//! `Some(min(path_budget, peer_max_datagram_frame_size.saturating_sub(Datagram::SIZE_BOUND)))`,
//! so a peer that configures `datagram_receive_buffer_size(Some(n))` with `n <= 9` makes quinn
//! return `Some(0)` (and `n` in `10..=9+h` makes it return a value smaller than the `h`-byte
//! HTTP3 datagram header). `wtransport::Connection::max_datagram_size()` must cope with that:
//! it must not panic and must not return a nonsensical (wrapped-around) value.
//!
//! Run with:
//!
//! ```text
//! cargo test --offline -p wtransport --features quinn \
//!     --test max_datagram_size_small_peer_limit -- --nocapture --test-threads=1
//! ```
#![cfg(all(feature = "quinn", feature = "self-signed"))]

use std::net::Ipv4Addr;
use std::net::SocketAddr;
use std::panic::catch_unwind;
use std::panic::AssertUnwindSafe;
use std::sync::Arc;
use std::time::Duration;
use wtransport::config::QuicTransportConfig;
use wtransport::proto::datagram::Datagram as H3Datagram;
use wtransport::proto::ids::QStreamId;
use wtransport::ClientConfig;
use wtransport::Connection;
use wtransport::Endpoint;
use wtransport::Identity;
use wtransport::ServerConfig;

const TIMEOUT: Duration = Duration::from_secs(5);

/// Largest value that can possibly make sense: QUIC `max_datagram_frame_size` as advertised by
/// quinn is clamped to `u16::MAX`, and a UDP payload cannot exceed 65535 bytes either.
const SANE_UPPER_BOUND: usize = 65535;

#[derive(Clone, Copy, Debug)]
enum TinySide {
    Server,
    Client,
}

fn loopback_any_port() -> SocketAddr {
    SocketAddr::from((Ipv4Addr::LOCALHOST, 0))
}

fn tiny_transport(datagram_receive_buffer_size: usize) -> QuicTransportConfig {
    let mut transport = QuicTransportConfig::default();
    transport.datagram_receive_buffer_size(Some(datagram_receive_buffer_size));
    transport
}

/// An established WebTransport session over localhost (both sides).
///
/// Endpoints are kept so that they surely outlive the connections.
struct Session {
    client_connection: Connection,
    server_connection: Connection,
    _client: Endpoint<wtransport::endpoint::endpoint_side::Client>,
    _server: Endpoint<wtransport::endpoint::endpoint_side::Server>,
}

async fn establish(tiny_side: TinySide, buffer_size: usize) -> Session {
    let identity = Identity::self_signed(["localhost", "127.0.0.1"]).unwrap();
    let cert_hash = identity.certificate_chain().as_slice()[0].hash();

    let server_config = match tiny_side {
        TinySide::Server => ServerConfig::builder()
            .with_bind_address(loopback_any_port())
            .with_custom_transport(identity, tiny_transport(buffer_size))
            .build(),
        TinySide::Client => ServerConfig::builder()
            .with_bind_address(loopback_any_port())
            .with_identity(identity)
            .build(),
    };

    let mut client_config = ClientConfig::builder()
        .with_bind_address(loopback_any_port())
        .with_server_certificate_hashes([cert_hash])
        .build();

    if let TinySide::Client = tiny_side {
        client_config
            .quic_config_mut()
            .transport_config(Arc::new(tiny_transport(buffer_size)));
    }

    let server = Endpoint::server(server_config).unwrap();
    let port = server.local_addr().unwrap().port();

    let server_task = tokio::spawn(async move {
        let session_request = server.accept().await.await.unwrap();
        let connection = session_request.accept().await.unwrap();
        (server, connection)
    });

    let client = Endpoint::client(client_config).unwrap();
    let client_connection = client
        .connect(format!("https://127.0.0.1:{port}/"))
        .await
        .unwrap();

    let (server, server_connection) = server_task.await.unwrap();

    Session {
        client_connection,
        server_connection,
        _client: client,
        _server: server,
    }
}

async fn check(tiny_side: TinySide, buffer_size: usize) {
    let session = tokio::time::timeout(TIMEOUT, establish(tiny_side, buffer_size))
        .await
        .expect("session establishment timed out");

    // The connection under test is the one whose *peer* has the tiny limit.
    let under_test = match tiny_side {
        TinySide::Server => &session.client_connection,
        TinySide::Client => &session.server_connection,
    };

    let header_size = H3Datagram::header_size(QStreamId::from_session_id(under_test.session_id()));

    // QUIC's value can change over time (path MTU discovery): sample it before and after the call
    // under test and retry until both samples agree, so the comparison below is deterministic.
    let (quic_max, result) = loop {
        let quic_max_before = under_test.quic_connection().max_datagram_size();
        let result = catch_unwind(AssertUnwindSafe(|| under_test.max_datagram_size()));
        let quic_max_after = under_test.quic_connection().max_datagram_size();

        if quic_max_before == quic_max_after {
            break (quic_max_before, result);
        }
    };

    println!(
        "[tiny side: {tiny_side:?}, datagram_receive_buffer_size: {buffer_size}] \
         session_id = {}, h3 datagram header size = {header_size}, \
         quinn max_datagram_size() = {quic_max:?}",
        under_test.session_id().into_u64(),
    );

    match &result {
        Ok(value) => println!("    wtransport max_datagram_size() = {value:?}"),
        Err(payload) => {
            let message = payload
                .downcast_ref::<&str>()
                .map(|s| s.to_string())
                .or_else(|| payload.downcast_ref::<String>().cloned())
                .unwrap_or_else(|| "<non-string panic payload>".to_string());
            println!("    wtransport max_datagram_size() PANICKED: {message}");
        }
    }

    let value = result.unwrap_or_else(|_| {
        panic!(
            "Connection::max_datagram_size() panicked \
             (quinn returned {quic_max:?}, header size is {header_size})"
        )
    });

    if let Some(max_size) = value {
        assert!(
            max_size <= SANE_UPPER_BOUND,
            "Connection::max_datagram_size() returned nonsensical value {max_size} \
             (quinn returned {quic_max:?}, header size is {header_size})"
        );

        // Whatever is reported must fit, header included, into what QUIC allows.
        assert!(
            max_size + header_size <= quic_max.expect("Some(_) requires QUIC datagram support"),
            "Connection::max_datagram_size() returned {max_size} which does not fit \
             (quinn returned {quic_max:?}, header size is {header_size})"
        );
    }
}

macro_rules! case {
    ($name:ident, $side:expr, $size:expr) => {
        #[tokio::test(flavor = "multi_thread", worker_threads = 2)]
        async fn $name() {
            check($side, $size).await;
        }
    };
}

// Peer (server) has the tiny limit; `max_datagram_size()` is called on the client connection.
case!(server_buffer_0, TinySide::Server, 0);
case!(server_buffer_1, TinySide::Server, 1);
case!(server_buffer_2, TinySide::Server, 2);
case!(server_buffer_5, TinySide::Server, 5);
case!(server_buffer_8, TinySide::Server, 8);
case!(server_buffer_9, TinySide::Server, 9);

// Boundary: quinn returns `Some(1)`, i.e. exactly the header size for session id 0 (no underflow).
case!(server_buffer_10, TinySide::Server, 10);

// Sanity: default-sized limits keep working.
case!(server_buffer_65535, TinySide::Server, 65535);

// Peer (client) has the tiny limit; `max_datagram_size()` is called on the server connection.
case!(client_buffer_0, TinySide::Client, 0);
case!(client_buffer_5, TinySide::Client, 5);
