//! Demonstration for the suspected cancel-safety defect of `Worker::run_impl`
//! (`wtransport/src/driver/mod.rs`).
//!
//! A wtransport SERVER (public API only) runs on loopback; the client is hand-written
//! HTTP/3 on raw quinn, so it controls exactly how the bytes of a frame are split in
//! packets and what happens in between.
//!
//! Every test asserts the CORRECT behaviour ("the split / the interleaved event does not
//! change the result"). The `control_*` tests are expected to pass; the `bug_*` tests fail
//! on the unmodified code and the failure message carries the observed outcome.
//!
//! Run:
//! `cargo test -p wtransport --offline --features quinn --test demo_c05 -- --nocapture --test-threads=1`

#![cfg(feature = "quinn")]

use std::net::Ipv4Addr;
use std::net::SocketAddr;
use std::time::Duration;
use tokio::sync::oneshot;
use tokio::time::sleep;
use tokio::time::timeout;
use wtransport::error::ConnectionError;
use wtransport::proto::bytes::BufferReader;
use wtransport::proto::frame::Frame;
use wtransport::proto::frame::FrameKind;
use wtransport::proto::headers::Headers;
use wtransport::proto::session::SessionRequest as ProtoSessionRequest;
use wtransport::quinn;
use wtransport::ClientConfig;
use wtransport::Endpoint;
use wtransport::Identity;
use wtransport::ServerConfig;

const PAUSE: Duration = Duration::from_millis(200);
const VERDICT_TIMEOUT: Duration = Duration::from_secs(3);

/// What happens between the two pieces of the split frame.
#[derive(Copy, Clone, Debug, PartialEq, Eq)]
enum Between {
    /// Nothing (only the pause).
    Nothing,
    /// A new unidirectional stream of reserved (GREASE) type 0x21 with two bytes.
    UniGrease,
    /// A QUIC datagram: quarter stream id 0 + payload.
    Datagram,
    /// The CONNECT request itself (new bidirectional stream with the HEADERS frame).
    ConnectRequest,
}

/// What the hand-written client observed.
#[derive(Debug, PartialEq, Eq)]
enum ClientSaw {
    /// A HEADERS frame with this `:status` on the request stream.
    Response(String),
    /// The server closed the QUIC connection with this application (H3) error code.
    ClosedByServer(u64),
    /// Some other connection termination.
    OtherClose(String),
    /// Nothing within `VERDICT_TIMEOUT`.
    Nothing,
}

/// What the server application observed while accepting the session.
#[derive(Debug)]
enum ServerAccept {
    Established,
    Failed(#[allow(dead_code)] String),
    Nothing,
}

// ---------------------------------------------------------------------------------------
// Wire helpers
// ---------------------------------------------------------------------------------------

/// SETTINGS payload: ENABLE_CONNECT_PROTOCOL=1, H3_DATAGRAM=1, ENABLE_WEBTRANSPORT=1,
/// WEBTRANSPORT_MAX_SESSIONS=1 (18 bytes).
fn settings_payload() -> Vec<u8> {
    let mut p = Vec::new();
    p.extend_from_slice(&[0x08, 0x01]);
    p.extend_from_slice(&[0x33, 0x01]);
    p.extend_from_slice(&[0xab, 0x60, 0x37, 0x42, 0x01]); // 0x2b603742 (4-byte varint)
    p.extend_from_slice(&[0xc0, 0x00, 0x00, 0x00, 0xc6, 0x71, 0x70, 0x6a, 0x01]); // 0xc671706a
    assert_eq!(p.len(), 18);
    p
}

/// Same settings plus QPACK ones and reserved (GREASE, RFC 9114 7.2.4.1) identifiers, so
/// that the payload is exactly 33 = 0x21 bytes long.
fn settings_payload_33() -> Vec<u8> {
    let mut p = settings_payload();
    p.extend_from_slice(&[0x01, 0x00]); // QPACK_MAX_TABLE_CAPACITY = 0
    p.extend_from_slice(&[0x07, 0x00]); // QPACK_BLOCKED_STREAMS = 0
    p.extend_from_slice(&[0x21, 0x00]); // GREASE 0x21 = 0
    p.extend_from_slice(&[0x40, 0x40, 0x00]); // GREASE 0x40 (= 0x21 + 0x1f), 2-byte varint
    p.extend_from_slice(&[0x40, 0x5f, 0x00]); // GREASE 0x5f
    p.extend_from_slice(&[0x40, 0x9d, 0x00]); // GREASE 0x9d
    assert_eq!(p.len(), 33);
    p
}

/// Bytes of the client control stream: stream type 0x00, SETTINGS frame.
fn control_stream_bytes(payload: &[u8]) -> Vec<u8> {
    assert!(payload.len() < 64);
    let mut b = vec![0x00, 0x04, payload.len() as u8];
    b.extend_from_slice(payload);
    b
}

fn connect_request_bytes(port: u16) -> Vec<u8> {
    let request = ProtoSessionRequest::new(format!("https://localhost:{port}/demo")).unwrap();
    let frame = request.headers().generate_frame();
    let mut bytes = Vec::new();
    frame.write(&mut bytes).unwrap();
    bytes
}

/// DATA frame carrying a CLOSE_WEBTRANSPORT_SESSION capsule.
fn close_capsule_bytes(code: u32, reason: &str) -> Vec<u8> {
    let mut capsule = vec![0x68, 0x43]; // 0x2843, 2-byte varint
    let len = 4 + reason.len();
    assert!(len < 60);
    capsule.push(len as u8);
    capsule.extend_from_slice(&code.to_be_bytes());
    capsule.extend_from_slice(reason.as_bytes());

    let mut frame = vec![0x00, capsule.len() as u8];
    frame.extend_from_slice(&capsule);
    frame
}

// ---------------------------------------------------------------------------------------
// Endpoints
// ---------------------------------------------------------------------------------------

struct Rig {
    server: Endpoint<wtransport::endpoint::endpoint_side::Server>,
    port: u16,
    client_endpoint: quinn::Endpoint,
    client_quic_config: quinn::ClientConfig,
}

fn rig() -> Rig {
    let identity = Identity::self_signed(["localhost", "127.0.0.1"]).unwrap();
    let cert_hash = identity.certificate_chain().as_slice()[0].hash();

    let server_config = ServerConfig::builder()
        .with_bind_address(SocketAddr::from((Ipv4Addr::LOCALHOST, 0)))
        .with_identity(identity)
        .build();

    let server = Endpoint::server(server_config).unwrap();
    let port = server.local_addr().unwrap().port();

    // Only used to obtain a quinn client configuration with the right TLS/ALPN set-up.
    let client_config = ClientConfig::builder()
        .with_bind_default()
        .with_server_certificate_hashes([cert_hash])
        .build();

    let client_endpoint =
        quinn::Endpoint::client(SocketAddr::from((Ipv4Addr::LOCALHOST, 0))).unwrap();

    Rig {
        server,
        port,
        client_endpoint,
        client_quic_config: client_config.quic_config().clone(),
    }
}

/// Performs the "other connection event" (everything except `ConnectRequest`).
async fn other_event(conn: &quinn::Connection, between: Between) {
    match between {
        Between::Nothing | Between::ConnectRequest => {}
        // Errors are ignored on purpose: the server may already have closed the connection,
        // and the verdict is taken afterwards from the connection itself.
        Between::UniGrease => {
            if let Ok(mut s) = conn.open_uni().await {
                let _ = s.write_all(&[0x21, 0xaa, 0xbb]).await;
                // Keep it open: no FIN/RESET noise. (Leaked on purpose.)
                std::mem::forget(s);
            }
        }
        Between::Datagram => {
            let _ = conn.send_datagram(vec![0x00, b'p', b'i', b'n', b'g'].into());
        }
    }
}

fn close_to_verdict(error: quinn::ConnectionError) -> ClientSaw {
    match error {
        quinn::ConnectionError::ApplicationClosed(close) => {
            ClientSaw::ClosedByServer(close.error_code.into_inner())
        }
        other => ClientSaw::OtherClose(other.to_string()),
    }
}

/// Waits for the first non-GREASE frame on the request stream, or the connection end.
async fn client_verdict(conn: &quinn::Connection, recv: &mut quinn::RecvStream) -> ClientSaw {
    let read_response = async {
        let mut buffer = Vec::new();
        loop {
            {
                let mut reader = BufferReader::new(&buffer);
                match Frame::read_from_buffer(&mut reader) {
                    Ok(Some(frame)) => match frame.kind() {
                        FrameKind::Headers => {
                            let headers = Headers::with_frame(&frame).unwrap();
                            return Some(headers.get(":status").unwrap_or("?").to_string());
                        }
                        other => panic!("unexpected frame on request stream: {other:?}"),
                    },
                    Ok(None) => {}
                    Err(e) => panic!("cannot parse server response: {e:?}"),
                }
            }

            let mut chunk = [0u8; 256];
            match recv.read(&mut chunk).await {
                Ok(Some(n)) => buffer.extend_from_slice(&chunk[..n]),
                // Stream/connection ended: let `closed()` tell the reason.
                Ok(None) | Err(_) => return None,
            }
        }
    };

    let verdict = async {
        if let Some(status) = read_response.await {
            return ClientSaw::Response(status);
        }
        close_to_verdict(conn.closed().await)
    };

    match timeout(VERDICT_TIMEOUT, verdict).await {
        Ok(saw) => saw,
        Err(_) => ClientSaw::Nothing,
    }
}

// ---------------------------------------------------------------------------------------
// Scenario 1: SETTINGS frame on the control stream
// ---------------------------------------------------------------------------------------

/// `split`: number of bytes of the control stream (stream type included) in the first piece;
/// `None` = everything with a single write.
async fn settings_scenario(
    name: &str,
    payload: Vec<u8>,
    split: Option<usize>,
    between: Between,
) -> (ClientSaw, ServerAccept) {
    let rig = rig();

    let (server_tx, server_rx) = oneshot::channel();
    let server = rig.server;
    let server_task = tokio::spawn(async move {
        let incoming = server.accept().await;
        let result = match incoming.await {
            Ok(request) => match request.accept().await {
                Ok(connection) => {
                    let _ = server_tx.send(ServerAccept::Established);
                    // Keep the session alive until the client goes away.
                    let _ = connection.closed().await;
                    return;
                }
                Err(e) => ServerAccept::Failed(format!("{e} / {e:?}")),
            },
            Err(e) => ServerAccept::Failed(format!("{e} / {e:?}")),
        };
        let _ = server_tx.send(result);
    });

    let conn = quic_connect_parts(&rig.client_endpoint, &rig.client_quic_config, rig.port).await;

    let control_bytes = control_stream_bytes(&payload);
    let request_bytes = connect_request_bytes(rig.port);

    let mut control = conn.open_uni().await.unwrap();
    let mut request_stream = None;

    match split {
        None => {
            control.write_all(&control_bytes).await.unwrap();
            sleep(PAUSE).await;
            other_event(&conn, between).await;
        }
        Some(k) => {
            control.write_all(&control_bytes[..k]).await.unwrap();
            sleep(PAUSE).await;

            if between == Between::ConnectRequest {
                let (mut send, recv) = conn.open_bi().await.unwrap();
                send.write_all(&request_bytes).await.unwrap();
                request_stream = Some((send, recv));
            } else {
                other_event(&conn, between).await;
            }

            sleep(PAUSE).await;
            control.write_all(&control_bytes[k..]).await.unwrap();
            println!("[{name}] both pieces of the SETTINGS frame written");
        }
    }

    sleep(PAUSE).await;

    let request_stream = match request_stream {
        Some(streams) => Some(streams),
        None => match conn.open_bi().await {
            Ok((mut send, recv)) => {
                let _ = send.write_all(&request_bytes).await;
                Some((send, recv))
            }
            // Connection already closed by the server.
            Err(_) => None,
        },
    };

    let client_saw = match request_stream {
        Some((_send, mut recv)) => client_verdict(&conn, &mut recv).await,
        None => close_to_verdict(conn.closed().await),
    };

    let server_saw = match timeout(Duration::from_millis(500), server_rx).await {
        Ok(Ok(saw)) => saw,
        _ => ServerAccept::Nothing,
    };

    println!(
        "[{name}] control stream = {:02x?}, first piece = {:?} bytes, between = {:?}\n\
         [{name}]   client observed: {}\n\
         [{name}]   server observed: {:?}",
        control_bytes,
        split,
        between,
        match &client_saw {
            ClientSaw::ClosedByServer(code) => format!("ClosedByServer(0x{code:04x})"),
            other => format!("{other:?}"),
        },
        server_saw
    );

    conn.close(0u32.into(), b"done");
    server_task.abort();
    let _ = control;

    (client_saw, server_saw)
}

fn assert_established(outcome: (ClientSaw, ServerAccept)) {
    let (client_saw, server_saw) = outcome;
    assert_eq!(
        client_saw,
        ClientSaw::Response("200".to_string()),
        "session NOT established; server side: {server_saw:?}"
    );
    assert!(matches!(server_saw, ServerAccept::Established));
}

#[tokio::test(flavor = "multi_thread", worker_threads = 2)]
async fn control_settings_one_piece() {
    assert_established(
        settings_scenario("one_piece", settings_payload(), None, Between::Nothing).await,
    );
}

#[tokio::test(flavor = "multi_thread", worker_threads = 2)]
async fn control_settings_one_piece_then_uni_and_datagram() {
    assert_established(
        settings_scenario("one_piece+uni", settings_payload(), None, Between::UniGrease).await,
    );
    assert_established(
        settings_scenario("one_piece+dgram", settings_payload(), None, Between::Datagram).await,
    );
}

#[tokio::test(flavor = "multi_thread", worker_threads = 2)]
async fn control_settings_split_nothing_between() {
    assert_established(
        settings_scenario("split2_nothing", settings_payload(), Some(3), Between::Nothing).await,
    );
    assert_established(
        settings_scenario("split1_nothing", settings_payload(), Some(2), Between::Nothing).await,
    );
    assert_established(
        settings_scenario(
            "split1_33_nothing",
            settings_payload_33(),
            Some(2),
            Between::Nothing,
        )
        .await,
    );
}

/// First piece: stream type + frame type + frame length; then a GREASE uni stream.
#[tokio::test(flavor = "multi_thread", worker_threads = 2)]
async fn bug_settings_split_after_length_uni_stream_between() {
    assert_established(
        settings_scenario("split2_uni", settings_payload(), Some(3), Between::UniGrease).await,
    );
}

/// First piece: stream type + frame type + frame length; then a datagram.
#[tokio::test(flavor = "multi_thread", worker_threads = 2)]
async fn bug_settings_split_after_length_datagram_between() {
    assert_established(
        settings_scenario("split2_dgram", settings_payload(), Some(3), Between::Datagram).await,
    );
}

/// First piece: stream type + frame type + frame length; then the CONNECT request itself.
#[tokio::test(flavor = "multi_thread", worker_threads = 2)]
async fn bug_settings_split_after_length_connect_request_between() {
    assert_established(
        settings_scenario(
            "split2_connect",
            settings_payload(),
            Some(3),
            Between::ConnectRequest,
        )
        .await,
    );
}

/// First piece: stream type + frame type only (18-byte payload).
#[tokio::test(flavor = "multi_thread", worker_threads = 2)]
async fn bug_settings_split_after_type_uni_stream_between() {
    assert_established(
        settings_scenario("split1_uni", settings_payload(), Some(2), Between::UniGrease).await,
    );
}

/// First piece: stream type + frame type only; 33-byte payload, so that the length byte
/// (0x21) is itself a valid (reserved) frame type once the type byte has been lost.
#[tokio::test(flavor = "multi_thread", worker_threads = 2)]
async fn bug_settings33_split_after_type_uni_stream_between() {
    assert_established(
        settings_scenario(
            "split1_33_uni",
            settings_payload_33(),
            Some(2),
            Between::UniGrease,
        )
        .await,
    );
}

// ---------------------------------------------------------------------------------------
// Scenario 2: CLOSE_WEBTRANSPORT_SESSION capsule on the established session stream
// ---------------------------------------------------------------------------------------

const CLOSE_CODE: u32 = 42;
const CLOSE_REASON: &str = "bye";

/// Returns what `Connection::closed()` yields in the server application.
async fn close_capsule_scenario(name: &str, split: Option<usize>, between: Between) -> String {
    let rig = rig();

    let (server_tx, server_rx) = oneshot::channel();
    let server = rig.server;
    let server_task = tokio::spawn(async move {
        let incoming = server.accept().await;
        let request = incoming.await.expect("session request");
        let connection = request.accept().await.expect("session accept");

        let mut datagrams = 0usize;
        // Every session operation fails with the reason the driver ended with; this is how
        // the application learns how the session was terminated.
        let error = loop {
            match connection.receive_datagram().await {
                Ok(_) => datagrams += 1,
                Err(error) => break error,
            }
        };

        let _ = server_tx.send((error, datagrams));
    });

    let conn = quic_connect_parts(&rig.client_endpoint, &rig.client_quic_config, rig.port).await;

    // Establish the session, everything in one piece.
    let mut control = conn.open_uni().await.unwrap();
    control
        .write_all(&control_stream_bytes(&settings_payload()))
        .await
        .unwrap();

    let (mut send, mut recv) = conn.open_bi().await.unwrap();
    send.write_all(&connect_request_bytes(rig.port))
        .await
        .unwrap();

    let saw = client_verdict(&conn, &mut recv).await;
    assert_eq!(saw, ClientSaw::Response("200".to_string()));

    sleep(PAUSE).await;

    let capsule = close_capsule_bytes(CLOSE_CODE, CLOSE_REASON);

    match split {
        None => {
            send.write_all(&capsule).await.unwrap();
            sleep(PAUSE).await;
            other_event(&conn, between).await;
        }
        Some(k) => {
            send.write_all(&capsule[..k]).await.unwrap();
            sleep(PAUSE).await;
            other_event(&conn, between).await;
            sleep(PAUSE).await;
            send.write_all(&capsule[k..]).await.unwrap();
        }
    }

    sleep(PAUSE).await;
    let _ = send.finish();

    let server_saw = match timeout(VERDICT_TIMEOUT, server_rx).await {
        Ok(Ok((error, datagrams))) => {
            let detail = match &error {
                ConnectionError::ApplicationClosed(close) => format!(
                    "ApplicationClosed(code={}, reason={:?})",
                    close.code().into_inner(),
                    String::from_utf8_lossy(close.reason())
                ),
                other => format!("{other:?} [{other}]"),
            };
            format!("{detail} (datagrams delivered to the application: {datagrams})")
        }
        _ => "NOTHING (session still open after timeout)".to_string(),
    };

    let client_close = match timeout(Duration::from_millis(500), conn.closed()).await {
        Ok(quinn::ConnectionError::ApplicationClosed(close)) => {
            format!("0x{:04x}", close.error_code.into_inner())
        }
        Ok(other) => other.to_string(),
        Err(_) => "still open".to_string(),
    };

    println!(
        "[{name}] capsule frame = {:02x?}, first piece = {:?} bytes, between = {:?}\n\
         [{name}]   server application observed: {}\n\
         [{name}]   QUIC close code seen by client: {}",
        capsule, split, between, server_saw, client_close
    );

    conn.close(0u32.into(), b"done");
    server_task.abort();
    let _ = control;

    server_saw
}

async fn quic_connect_parts(
    endpoint: &quinn::Endpoint,
    config: &quinn::ClientConfig,
    port: u16,
) -> quinn::Connection {
    endpoint
        .connect_with(
            config.clone(),
            SocketAddr::from((Ipv4Addr::LOCALHOST, port)),
            "localhost",
        )
        .unwrap()
        .await
        .expect("QUIC handshake")
}

fn assert_app_closed(server_saw: String) {
    let expected = format!("ApplicationClosed(code={CLOSE_CODE}, reason={CLOSE_REASON:?})");
    assert!(
        server_saw.starts_with(&expected),
        "expected {expected}, server application observed: {server_saw}"
    );
}

#[tokio::test(flavor = "multi_thread", worker_threads = 2)]
async fn control_close_capsule_one_piece() {
    assert_app_closed(close_capsule_scenario("close_one_piece", None, Between::Nothing).await);
    assert_app_closed(close_capsule_scenario("close_one_piece+dgram", None, Between::Datagram).await);
}

#[tokio::test(flavor = "multi_thread", worker_threads = 2)]
async fn control_close_capsule_split_nothing_between() {
    assert_app_closed(
        close_capsule_scenario("close_split1_nothing", Some(1), Between::Nothing).await,
    );
    assert_app_closed(
        close_capsule_scenario("close_split2_nothing", Some(2), Between::Nothing).await,
    );
}

/// First piece: the DATA frame type only; then a datagram.
#[tokio::test(flavor = "multi_thread", worker_threads = 2)]
async fn bug_close_capsule_split_after_type_datagram_between() {
    assert_app_closed(
        close_capsule_scenario("close_split1_dgram", Some(1), Between::Datagram).await,
    );
}

/// First piece: the DATA frame type and length; then a datagram.
#[tokio::test(flavor = "multi_thread", worker_threads = 2)]
async fn bug_close_capsule_split_after_length_datagram_between() {
    assert_app_closed(
        close_capsule_scenario("close_split2_dgram", Some(2), Between::Datagram).await,
    );
}

/// First piece: the DATA frame type and length; then a GREASE uni stream.
#[tokio::test(flavor = "multi_thread", worker_threads = 2)]
async fn bug_close_capsule_split_after_length_uni_stream_between() {
    assert_app_closed(
        close_capsule_scenario("close_split2_uni", Some(2), Between::UniGrease).await,
    );
}
