"""Which obligations decide which property. One entry per claimed property.

kani entry : {harness, crate (proto|driver), tier (quick|thorough), kind (complete|bounded), bound,
              what, functions}
verus entry: {unit, tier, pair: (crate, harness) paired Kani harness used to look for a failing input}
"""
import glob
import os
import re
import subprocess

HERE = os.path.dirname(os.path.abspath(__file__))

TRUSTED_BASE = [
    "rustc 1.95 / LLVM; Kani 0.68 MIR->GOTO translation; CBMC 6.11 + CaDiCaL/kissat",
    "Verus 0.2026.09.13 + z3; vstd specs of core/alloc items",
    "usize = 64 bit target",
    "RFC transcription in /verif/kani/proto/spec.rs and its Verus mirror in the unit templates",
    "extraction rewrites R1-R8 of /verif/lib/verus.py preserve semantics (listed per item in coverage.units[].extraction)",
]

GLOBAL_ASSUMPTIONS = [
    "Kani: termination is only established where an unwinding assertion passes; panics/overflow/OOB are checked on every path (equivalent to debug and release agreeing)",
    "Verus: machine integers are checked for overflow (not treated as mathematical); every loop has a decreases clause",
    "std/alloc containers, String::from_utf8, u16::from_str, httlib-huffman, url, bytes::Bytes, quinn, tokio are trusted wherever they are called",
]

P = "wtransport-proto/src/"
D = "wtransport/src/"


def K(h, what, functions=(), tier="quick", kind="complete", bound="", crate="proto", reproducer=None):
    d = {"harness": h, "what": what, "functions": list(functions), "tier": tier, "kind": kind, "bound": bound,
         "crate": crate}
    if reproducer:
        d["reproducer"] = reproducer
    return d


def V(unit, tier="quick", pair=None):
    return {"unit": unit, "tier": tier, "pair": pair}


VARINT_KANI = [
    K("c_varint_try_from_u64", "in-place contract: Ok(v) <=> value < 2^62, value kept", [P + "varint.rs::VarInt::try_from_u64"]),
    K("c_varint_size", "in-place contract: size == RFC 9000 table 4", [P + "varint.rs::VarInt::size"]),
    K("c_varint_parse_size", "in-place contract: parse_size == 1 << (first >> 6)", [P + "varint.rs::VarInt::parse_size"]),
    K("p_varint_consts_and_conversions", "MAX/MIN/From/TryFrom keep the value; size is the shortest form",
      [P + "varint.rs::VarInt::{from_u32,into_inner,From<u8|u16|u32>,TryFrom<u64>}"]),
    K("p_buffer_writer_put_varint", "put_varint writes exactly size(v) RFC bytes or leaves buffer+offset untouched, all v, capacities 0..9",
      [P + "bytes.rs::BufferWriter::put_varint", "octets::OctetsMut::put_varint"]),
    K("p_buffer_writer_put_bytes", "put_bytes all-or-nothing copy", [P + "bytes.rs::BufferWriter::put_bytes"]),
    K("p_buffer_reader_get_varint", "get_varint: Some <=> enough bytes; value/consumption per RFC; None leaves offset",
      [P + "bytes.rs::BufferReader::get_varint", "octets::Octets::get_varint"]),
    K("p_slice_get_varint", "<&[u8]>::get_varint same contract", [P + "bytes.rs::<&[u8] as BytesReader>::get_varint"]),
    K("p_readers_get_bytes", "get_bytes on both readers: zero-copy alias, all-or-nothing",
      [P + "bytes.rs::BufferReader::get_bytes", P + "bytes.rs::<&[u8] as BytesReader>::get_bytes"]),
    K("p_buffer_reader_child", "skip/child/commit: commit advances parent by child's offset, drop leaves it",
      [P + "bytes.rs::BufferReader::{skip,child,buffer_remaining}", P + "bytes.rs::BufferReaderChild::commit"]),
    K("p_varint_roundtrip_buffer", "decode(encode(v)) == v consuming size(v), all v < 2^62, both readers",
      [P + "bytes.rs::BufferWriter::put_varint", P + "bytes.rs::BufferReader::get_varint"]),
    K("p_vec_put_varint", "Vec<u8>::put_varint appends exactly the RFC encoding", [P + "bytes.rs::<Vec<u8> as BytesWriter>::put_varint"]),
]

IDS_KANI = [
    K("c_streamid_is_bidirectional", "in-place contract == RFC 9000 §2.1", [P + "ids.rs::StreamId::is_bidirectional"]),
    K("c_streamid_is_client_initiated", "in-place contract == RFC 9000 §2.1", [P + "ids.rs::StreamId::is_client_initiated"]),
    K("c_streamid_is_local", "in-place contract: local <=> (client-initiated != is_server)", [P + "ids.rs::StreamId::is_local"]),
    K("p_streamid_table", "classification table by id mod 4, all 2^62 ids", [P + "ids.rs::StreamId::*"]),
    K("c_sessionid_try_from_session_stream", "Ok <=> id mod 4 == 0 (modular: against is_* contracts)",
      [P + "ids.rs::SessionId::try_from_session_stream"]),
    K("p_sessionid_try_from_varint", "try_from_varint against try_from_session_stream's contract", [P + "ids.rs::SessionId::try_from_varint"]),
    K("p_sessionid_getters", "getters return the id", [P + "ids.rs::SessionId::{into_u64,into_varint,session_stream}"]),
    K("c_qstreamid_try_from_varint", "Ok <=> v <= 2^60-1", [P + "ids.rs::QStreamId::try_from_varint"]),
    K("c_qstreamid_from_session_id", "q == s/4, in range; debug_assert + unsafe precondition discharged", [P + "ids.rs::QStreamId::from_session_id"]),
    K("c_qstreamid_into_stream_id", "s == 4q, in range; debug_assert + unsafe precondition discharged", [P + "ids.rs::QStreamId::into_stream_id"]),
    K("c_qstreamid_into_session_id", "modular against into_stream_id/is_* contracts", [P + "ids.rs::QStreamId::into_session_id"]),
    K("p_qstream_session_inverse_modular", "mutual inverses from the contracts alone", []),
    K("p_qstream_session_inverse_real", "mutual inverses on the real bodies, constants", [P + "ids.rs::QStreamId::*"]),
]

STATUS_KANI = [
    K("p_statuscode_numeric_ctors", "TryFrom<u8|u16|u32|u64>/try_from_u32: Ok(c) <=> 100<=v<=599, c==v; constants",
      [P + "ids.rs::StatusCode::{TryFrom<u8>,TryFrom<u16>,TryFrom<u32>,TryFrom<u64>,try_from_u32,into_inner}"]),
    K("p_statuscode_default_in_range", "Default constructor stays within 100..=599", [P + "ids.rs::StatusCode::default"]),
    K("p_statuscode_is_successful", "is_successful <=> 200..=299", [P + "ids.rs::StatusCode::is_successful"]),
    K("p_statuscode_from_str", "FromStr: Ok(c) => 100<=c<=599 and c is the decimal value; out-of-range digit strings are Err",
      [P + "ids.rs::<StatusCode as FromStr>::from_str"], kind="bounded", bound="strings of <= 5 ASCII bytes (all u16 decimals)",
      reproducer="\"99\".parse::<wtransport_proto::ids::StatusCode>()"),
]

GREASE_NOTE = "GREASE test abstracted by an uninterpreted function (kani/proto/oracle.rs); its identity with the RFC predicate is the separate obligation c_*_is_id_exercise / c_settingid_is_exercise"

FRAME_KIND_KANI = [
    K("c_framekind_is_id_exercise", "FrameKind::is_id_exercise == RFC 9114 GREASE predicate 0x1f*N+0x21, all 2^62 ids", [P + "frame.rs::FrameKind::is_id_exercise"]),
    K("c_framekind_parse", "FrameKind::parse: four registered types, GREASE kept with id, else unknown (exact arithmetic, all 2^62 ids)", [P + "frame.rs::FrameKind::parse"]),
    K("c_framekind_id", "FrameKind::id is the registry value whose parse is the kind", [P + "frame.rs::FrameKind::id"]),
    K("p_framekind_id_parse_inverse", "parse(id(k)) == k; registry constants 0/1/4/0x41; parse limit 4096", [P + "frame.rs::frame_kind_ids::*"]),
    K("p_grease_facts", "facts assumed by the uninterpreted GREASE oracle hold for the RFC predicate", []),
]

STREAM_KIND_KANI = [
    K("c_streamkind_is_id_exercise", "StreamKind::is_id_exercise == RFC 9114 GREASE predicate, all 2^62 ids", [P + "stream_header.rs::StreamKind::is_id_exercise"]),
    K("c_streamkind_parse", "StreamKind::parse: control/QPACK enc/QPACK dec/WT (0/2/3/0x54), GREASE kept, else unknown", [P + "stream_header.rs::StreamKind::parse"]),
    K("c_streamkind_id", "StreamKind::id is the registry value whose parse is the kind", [P + "stream_header.rs::StreamKind::id"]),
    K("p_streamkind_id_parse_inverse", "parse(id(k)) == k; registry constants; MAX_SIZE", [P + "stream_header.rs::stream_type_ids::*"]),
]

SETTING_ID_KANI = [
    K("c_settingid_is_exercise", "SettingId::is_exercise == RFC GREASE predicate, all 2^62 ids", [P + "settings.rs::SettingId::is_exercise"]),
    K("c_settingid_is_reserved", "in-place contract: reserved <=> HTTP/2 ids {0,2,3,4,5}", [P + "settings.rs::SettingId::is_reserved"]),
    K("c_settingid_parse", "SettingId::parse: reserved -> ReservedSetting, GREASE kept, seven registered ids, else UnknownSetting (ignored)", [P + "settings.rs::SettingId::parse"]),
    K("c_settingid_id", "SettingId::id registry values (0x01,0x06,0x07,0x08,0x33,0x2b603742,0xc671706a); parse(id(s)) == s", [P + "settings.rs::SettingId::id", P + "settings.rs::setting_ids::*"]),
]

FRAME_READ_20 = K("p_frame_read_matches_reference_20",
                  "every byte string <= 20 bytes: Frame::read and read_from_buffer == reference parser (value / need-more / error class, exact consumption, unknown frames consumed whole, zero-copy payload, offset moves only on success)",
                  [P + "frame.rs::Frame::read", P + "frame.rs::Frame::read_from_buffer", P + "frame.rs::Frame::{new,new_webtransport,kind,payload,session_id}"],
                  reproducer="wtransport_proto::frame::Frame::read(&mut &[0x25u8, 0x40, 0x00][..]) then inspect the reader: 1 byte consumed instead of 3")
FRAME_READ_4200 = K("p_frame_read_matches_reference_4200",
                    "same contract on every byte string <= 4200 bytes: the 4096-byte parse limit is reachable with a complete frame",
                    [P + "frame.rs::Frame::read", P + "frame.rs::Frame::read_from_buffer"], tier="thorough")

FRAME_ASYNC_LIMIT = K("p_frame_read_async_at_limit", "Frame::read_async with declared payload 4095/4096/4097 on a short always-ready source: 4096 is not too big (UnexpectedFin), 4097 is (PayloadTooBig)",
                      [P + "frame.rs::Frame::read_async"], tier="thorough", kind="bounded", bound="three concrete declared lengths, five frame types")

FRAME_WRITE_KANI = [
    K("p_frame_write_roundtrip_8", "all kinds/ids/session ids, payload <= 8, all capacities: write_size exact, write_to_buffer all-or-nothing == RFC bytes, read(write(f)) == f",
      [P + "frame.rs::Frame::{write,write_to_buffer,write_size,new_data,new_headers,new_settings,new_exercise,new_webtransport}"],
      kind="bounded", bound="payload length <= 8 (header part complete: all 2^62 ids / session ids)"),
    K("p_frame_write_roundtrip_70", "same, payload <= 70 (crosses the 63/64 length-varint boundary)",
      [P + "frame.rs::Frame::{write,write_to_buffer,write_size}"], kind="bounded", bound="payload length <= 70", tier="thorough"),
    K("p_frame_write_plain", "Frame::write into a BufferWriter: Err iff capacity < write_size, output == RFC bytes",
      [P + "frame.rs::Frame::write"], kind="bounded", bound="payload length <= 4"),
]

STREAM_HEADER_KANI = [
    K("p_stream_header_read_matches_reference", "every byte string <= 17 bytes: StreamHeader::read / read_from_buffer == reference (value, need-more, UnknownStream, InvalidSessionId; exact consumption <= 16; a following application byte is never taken)",
      [P + "stream_header.rs::StreamHeader::read", P + "stream_header.rs::StreamHeader::read_from_buffer", P + "stream_header.rs::StreamHeader::{new,kind,session_id}"]),
    K("p_stream_header_write_roundtrip", "all kinds / session ids / capacities: write_size exact, write_to_buffer all-or-nothing == RFC bytes, read(write(h)) == h",
      [P + "stream_header.rs::StreamHeader::{write,write_to_buffer,write_size,new_control,new_webtransport}"]),
]

STREAM_KANI_QUICK = [
    K("p_rule_table_biremote", "peer-initiated bidi stream, arbitrary first_frame_done state: verdict == RFC 9114 7.2 / WT draft rule table, error code prescribed, state updated; optional leading unknown frame skipped whole",
      [P + "stream.rs::biremote::StreamBiRemoteH3::{read_frame,validate_frame}", P + "stream.rs::types::H3::{new,set_first_frame}"],
      kind="bounded", bound="one frame of each kind (GREASE ids < 2^25, payload <= 3) preceded by at most one unknown frame"),
    K("p_rule_table_bilocal", "locally-initiated bidi stream: same", [P + "stream.rs::bilocal::StreamBiLocalH3::{read_frame,validate_frame}"],
      kind="bounded", bound="as above"),
    K("p_rule_table_unicontrol", "peer control / QPACK / GREASE uni stream: same", [P + "stream.rs::uniremote::StreamUniRemoteH3::{read_frame,validate_frame,kind}"],
      kind="bounded", bound="as above"),
    K("p_rule_table_session", "established session stream: same", [P + "stream.rs::session::StreamSession::{read_frame,validate_frame}"],
      kind="bounded", bound="as above"),
    K("p_uniremote_upgrade", "every byte string <= 17: uniremote::upgrade == reference header parse; unknown type -> H3_STREAM_CREATION_ERROR, invalid session id -> H3_ID_ERROR, need-more returns the stream",
      [P + "stream.rs::uniremote::StreamUniRemoteQuic::upgrade"]),
    K("p_wt_upgrades_write_exact_preamble", "all session ids: WT upgrades write exactly varint(0x41|0x54) varint(session id) and keep the id",
      [P + "stream.rs::bilocal::StreamBiLocalH3::{upgrade,upgrade_size}", P + "stream.rs::unilocal::StreamUniLocalQuic::{upgrade,upgrade_size}",
       P + "stream.rs::unilocal::StreamUniLocalH3::upgrade", P + "stream.rs::uniremote::StreamUniRemoteH3::upgrade", P + "stream.rs::biremote::StreamBiRemoteH3::upgrade"]),
]

STREAM_KANI_BUFFERED = [
    K("p_rule_table_buffered_%s" % r,
      "%s read_frame_from_buffer on the rule-table inputs cut at an arbitrary point: a proper prefix is need-more-data and never moves the offset; the complete input gives the one-shot verdict with offset == consumption on Some and 0 on Err" % r,
      [P + "stream.rs::%s::read_frame_from_buffer" % m], kind="bounded", bound="well-formed single frames (+ optional leading unknown frame), every cut point")
    for r, m in (("biremote", "biremote::StreamBiRemoteH3"), ("bilocal", "bilocal::StreamBiLocalH3"),
                 ("unicontrol", "uniremote::StreamUniRemoteH3"), ("session", "session::StreamSession"))
]

def _skip(name, role, buffered):
    return K(name, "%s%s on EVERY byte string <= 14 bytes with at most one leading unknown frame, arbitrary first_frame_done: result == reference (unknown frame skipped whole, rule table, error codes, exact consumption%s)" % (
        role, " (buffered)" if buffered else "", "; offset unchanged unless Some" if buffered else ""),
        [P + "stream.rs::%s::read_frame%s" % (role, "_from_buffer" if buffered else "")],
        tier="thorough", kind="bounded", bound="input <= 14 bytes, <= 1 leading unknown frame (base case + one induction step; the unbounded loop argument is Verus unit `frame`)")

STREAM_KANI_THOROUGH = [
    _skip("p_read_frame_biremote_k1", "biremote", False), _skip("p_read_frame_bilocal_k1", "bilocal", False),
    _skip("p_read_frame_unicontrol_k1", "uniremote", False), _skip("p_read_frame_session_k1", "session", False),
    _skip("p_read_frame_buffered_biremote_k1", "biremote", True), _skip("p_read_frame_buffered_bilocal_k1", "bilocal", True),
    _skip("p_read_frame_buffered_unicontrol_k1", "uniremote", True), _skip("p_read_frame_buffered_session_k1", "session", True),
]

QPACK_INT_DEC = [
    K("p_qpack_decode_integer_n%d" % n,
      "every byte string <= 12 octets: decode_integer::<%d> == RFC 7541 5.1 (value, consumption, UnexpectedFin, IntegerOverflow iff > usize::MAX or > 10 continuation octets); no shift/add overflow; loop bounded by operand width" % n,
      [P + "qpack.rs::Decoder::decode_integer"],
      reproducer="wtransport_proto::qpack::Decoder::decode([0x00,0x00,0xff,0xff,0xff,0xff,0xff,0xff,0xff,0xff,0xff,0xff,0xff,0x01])")
    for n in (3, 4, 6, 7, 8)
]
QPACK_INT_ENC = [
    K("p_qpack_encode_integer_n%d" % n,
      "all usize values, all flags, all capacities: encode_integer::<%d> output == RFC 7541 5.1; decode(encode(v)) == v with exact consumption" % n,
      [P + "qpack.rs::Encoder::encode_integer", P + "qpack.rs::Decoder::decode_integer"])
    for n in (3, 4, 6, 7, 8)
]
QPACK_MISC = [
    K("p_qpack_field_line_type", "all 256 first bytes classified per RFC 9204 4.5; unreachable!() unreachable", [P + "qpack.rs::Decoder::decode_field_line_type"]),
    K("p_qpack_static_table_is_rfc9204", "STATIC_TABLE == RFC 9204 Appendix A, all 99 rows; lookup_field total (None iff index >= 99)", [P + "qpack.rs::StaticTable::{STATIC_TABLE,lookup_field}"]),
]
VEC_PUT_BYTES = K("p_vec_put_bytes", "Vec<u8>::put_bytes appends exactly the bytes, never fails", [P + "bytes.rs::<Vec<u8> as BytesWriter>::put_bytes"])
QPACK_LOOKUP = K("p_qpack_lookup_index_sound", "lookup_index returns a row with the requested name (and value for KeyValue), None iff name absent",
                 [P + "qpack.rs::StaticTable::lookup_index"], tier="thorough", kind="bounded", bound="14 listed (name, value) pairs incl. all WebTransport pseudo-headers")

DATAGRAM_KANI = [
    K("c_datagram_header_size", "in-place contract (modular vs VarInt::size): header == varint length of the quarter stream id", [P + "datagram.rs::Datagram::header_size"]),
    K("c_datagram_write_size", "in-place contract (modular vs header_size): write_size == header + payload", [P + "datagram.rs::Datagram::write_size"]),
    K("p_datagram_roundtrip_16", "all qids, payload <= 16, all buffer sizes: write all-or-nothing == varint(qid)||payload, returns write_size; read(write(d)) == d, payload zero-copy",
      [P + "datagram.rs::Datagram::{new,write,read,qstream_id,payload}"], kind="bounded", bound="payload length <= 16 (header complete: all qids)"),
    K("p_datagram_roundtrip_256", "same with payload <= 256", [P + "datagram.rs::Datagram::{write,read}"], kind="bounded", bound="payload length <= 256", tier="thorough"),
    K("p_datagram_read_total", "every byte string <= 12: Ok iff complete varint <= 2^60-1, payload == rest; else H3_DATAGRAM_ERROR; no panic", [P + "datagram.rs::Datagram::read"]),
]

CAPSULE_KANI = [
    K("c_capsulekind_parse", "in-place contract: Some <=> type == 0x2843", [P + "capsule/mod.rs::CapsuleKind::parse"]),
    K("p_capsule_with_frame", "every DATA payload <= 16 bytes: Some iff varint(0x2843) varint(L) and >= L bytes; payload == the L declared bytes; unknown/GREASE capsule types and truncations -> None",
      [P + "capsule/mod.rs::Capsule::with_frame"]),
    K("p_close_wt_session_length_and_code", "payload lengths 0..=1030 (UTF-8 verdict arbitrary): Ok => 4 <= len <= 1028; code == big-endian first 4 bytes for all 2^32 codes; reason length len-4; errors are H3_DATAGRAM_ERROR",
      [P + "capsule/close_wt_session.rs::CloseWebTransportSession::{with_capsule,error_code,reason}"]),
    K("p_close_wt_session_reason_bytes", "real from_utf8: Ok iff len >= 4 and reason valid UTF-8; reason bytes unchanged",
      [P + "capsule/close_wt_session.rs::CloseWebTransportSession::with_capsule"], tier="thorough", kind="bounded", bound="reason <= 4 bytes"),
]

ASYNC_LEAF_KANI = [
    K("p_get_varint_new_establishes_invariant", "GetVarint::new establishes the invariant", [P + "bytes.rs::r#async::GetVarint::new"]),
    K("p_get_varint_poll_step", "one poll from ANY invariant state, any chunk size / Pending / FIN / reset: invariant kept, bytes taken == bytes stored, never over-reads, Ready(Ok(v)) <=> exactly parse_size bytes taken and v == RFC value, ImmediateFin iff 0 bytes taken, UnexpectedFin iff >= 1",
      [P + "bytes.rs::r#async::<GetVarint as Future>::poll"]),
    K("p_get_buffer_poll_step", "same for GetBuffer (lengths 0..=8)", [P + "bytes.rs::r#async::<GetBuffer as Future>::poll"],
      kind="bounded", bound="buffer length <= 8 (the step is length-independent: induction on bytes stored)"),
    K("p_put_varint_poll_step", "PutVarint::new buffers exactly the RFC bytes; one poll from any progress writes only those bytes in order; Ready(Ok) iff all size(v) bytes are out",
      [P + "bytes.rs::r#async::PutVarint::new", P + "bytes.rs::r#async::<PutVarint as Future>::poll"]),
    K("p_put_buffer_poll_step", "same for PutBuffer (lengths 0..=8)", [P + "bytes.rs::r#async::<PutBuffer as Future>::poll"],
      kind="bounded", bound="buffer length <= 8"),
    K("p_io_error_mapping", "io::ErrorKind -> IoReadError/IoWriteError mapping", [P + "bytes.rs::r#async::{From<io::Error> for IoReadError, From<io::Error> for IoWriteError}"]),
]

ASYNC_WRITE_KANI = [
    K("p_stream_header_write_async_exact", "ASYNC StreamHeader::write_async on an always-ready destination: exactly varint(kind) || varint(session id) for all kinds / session ids, nothing else (chunking / Pending: leaf-future poll contracts)",
      [P + "stream_header.rs::StreamHeader::write_async"]),
    K("p_frame_write_async_exact", "ASYNC Frame::write_async on an always-ready destination: exactly the RFC bytes write_size announces, for all kinds / ids / session ids",
      [P + "frame.rs::Frame::write_async"], kind="bounded", bound="payload length <= 4 (header part complete)"),
    K("p_wt_upgrade_async_bi_exact_preamble", "ASYNC bilocal upgrade_async: writes exactly varint(0x41) varint(session id), keeps the id, all session ids",
      [P + "stream.rs::bilocal::StreamBiLocalH3::upgrade_async"]),
    K("p_wt_upgrade_async_uni_exact_preamble", "ASYNC unilocal upgrade_async: writes exactly varint(0x54) varint(session id), keeps the id, all session ids",
      [P + "stream.rs::unilocal::StreamUniLocalQuic::upgrade_async"]),
]
QPACK_LOOKUP_QUICK = K("p_qpack_lookup_index_exact_value", "lookup_index answers KeyValue (indexed field line) only for an EXACT value match: values differing by letter case are name references",
                       [P + "qpack.rs::StaticTable::lookup_index"], kind="bounded", bound="3 listed (name, value) pairs")

CANCEL_KANI = [
    K("p_get_varint_cancel_keeps_input", "C05 cancellation contract on the leaf future: a GetVarint dropped while Pending has taken nothing out of the source (FAILS on the unchanged tree: known finding D6)",
      [P + "bytes.rs::r#async::<GetVarint as Future>::poll"]),
    K("p_get_buffer_cancel_keeps_input", "same for GetBuffer (destination <= 8 bytes)", [P + "bytes.rs::r#async::<GetBuffer as Future>::poll"],
      kind="bounded", bound="buffer length <= 8"),
]

MISC_KANI = [
    K("c_error_code_to_code", "in-place contract: 15 error codes == IANA / draft registry values", [P + "error.rs::ErrorCode::to_code"]),
    K("p_alpn_is_h3", "ALPN token is h3", [P + "lib.rs::WEBTRANSPORT_ALPN"]),
]

DRIVER_KANI = [
    K("p_varint_conversions_identity", "quinn<->wtransport varint conversions are the identity on all 2^62 values; debug_asserts / unsafe preconditions discharged",
      [D + "driver/utils.rs::{varint_q2w,varint_w2q}"], crate="driver"),
    K("p_read_error_mapping", "quinn::ReadError -> StreamReadError: Reset(c) -> Reset(c) for all 62-bit c; other constructible variants -> documented arm",
      [D + "driver/streams/mod.rs::<StreamReadError as From<quinn::ReadError>>::from"], crate="driver"),
    K("p_write_error_mapping", "quinn::WriteError -> StreamWriteError: Stopped(c) -> Stopped(c) for all 62-bit c; other constructible variants -> documented arm",
      [D + "driver/streams/mod.rs::<StreamWriteError as From<quinn::WriteError>>::from"], crate="driver"),
]
DRIVER_CLOSE = [
    K("p_application_close_code_exact", "quinn ApplicationClosed(code, reason) -> ConnectionError::ApplicationClosed with the same 62-bit code (all 2^62) and reason",
      [D + "error.rs::<ConnectionError as From<quinn::ConnectionError>>::from", D + "error.rs::ApplicationClose::{code,reason}"], crate="driver"),
    K("p_connection_error_arms", "TimedOut / LocallyClosed / CidsExhausted / Reset / VersionMismatch keep their own arm, never an application close",
      [D + "error.rs::<ConnectionError as From<quinn::ConnectionError>>::from"], crate="driver"),
]
DRIVER_STREAMID = K("p_streamid_q2w", "quinn stream id -> StreamId keeps the value; classification and session-id admission per RFC 9000 2.1, all initiators/directions/indices",
                    [D + "driver/utils.rs::streamid_q2w"], crate="driver")
DRIVER_DGRAM_HDR = K("p_driver_datagram_header_size", "driver Datagram::header_size(session) == varint length of session/4", [D + "datagram.rs::Datagram::header_size"], crate="driver")

HOOK_COMMITS = ["940a808", "d1760cd", "28c632f"]

TECH = "contract-based deductive verification: Kani function contracts / full-domain loop-free harnesses on the real crates (in place, cfg(kani)) + Verus contracts on functions extracted mechanically from /repo"

PROPS = {
    "C01": {
        "level": "proof",
        "claim": "Preamble codec only, both directions and both styles: the WebTransport stream preamble (0x54 / 0x41 varint + session id varint) is written exactly (StreamHeader/Frame encoders and the local upgrades, sync and async, Verus unit frame_write + Kani) and stripped exactly (one-shot, buffered at every cut point, async as sequential composition of the leaf futures whose one-step inductive poll contracts cover every chunking / Pending pattern): decoders consume precisely the preamble and never a following application byte. The ASYNC encoders the driver uses for every locally opened stream (StreamHeader::write_async, Frame::write_async, bilocal / unilocal upgrade_async) emit exactly the same preamble bytes on an always-ready destination (Kani composite harnesses; chunking / Pending by the leaf-future poll contracts), and a buffered read that asks for more data leaves the stream's first-frame state untouched (second attempt on the same stream object).",
        "note": "Not decided: that quinn delivers stream bytes in order, the driver's tasks, concurrency between streams, flow control. Assumed: async fn desugaring composes awaits sequentially (rewrite R9); BytesReader/Writer and AsyncReader/Writer interfaces are assumed in Verus and discharged for the real impls / leaf futures by the named Kani harnesses.",
        "kani": STREAM_HEADER_KANI + [STREAM_KANI_QUICK[4], STREAM_KANI_QUICK[5], FRAME_READ_20, STREAM_KANI_BUFFERED[0]] + ASYNC_LEAF_KANI + ASYNC_WRITE_KANI,
        "verus": [V("frame", pair=("proto", "p_frame_read_matches_reference_20")), V("frame_async"), V("stream_header", pair=("proto", "p_stream_header_read_matches_reference")), V("frame_write", pair=("proto", "p_frame_write_roundtrip_8"))],
        "not_decided": ["in-order delivery (quinn)", "worker tasks / concurrency", "async composites beyond their leaf futures"],
    },
    "C02": {
        "level": "proof",
        "claim": "The decision half of session setup, for every sequence of frames and I/O outcomes on the request stream (Verus unit endpoint, on the extracted tail of Endpoint::connect from the settings exchange on, and on SessionRequest::send_response / accept_impl): after the request has been written, GREASE frames are skipped and the FIRST other read decides - connect returns a usable Connection IFF that read is a HEADERS frame whose field section decodes to a response with a valid status in 200..=299 (and the driver is still alive), carrying the request stream's OWN session id; it fails as SessionRejected IFF the status is valid but not 2xx or the server reset the request stream; a non-HEADERS frame, an undecodable field section or a missing / malformed status is a local H3 error (H3_FRAME_UNEXPECTED, the decoder's code, H3_MESSAGE_ERROR), never an acceptance and never 'rejected'; the outcome depends on the response only through its status (unit session). Server side: accepting writes the 200 response (+ the given fields) and yields a Connection with the request stream's own session id - so both endpoints name the session by the same stream; a response that cannot be written because the client stopped the stream closes the connection with H3_CLOSED_CRITICAL_STREAM.",
        "note": "Assumed stand-ins: Driver (accept_settings / open_session / register_session answer by unknown outcomes), the session stream (unknown infinite sequence of read results), quinn connection handle, proto-layer decoders (under contract in units qpack_decode / session / ids). R12: the prefix of connect (URL parsing, DNS, QUIC connect) is dropped and NOT under contract; the request construction (SessionRequest::new + the additional-header loop: url crate, HashMap iteration) is an assumed function of the inputs whose only failure is ReservedHeader. NOT decided: that the server application sees exactly the authority / path / fields (end-to-end over QUIC; the sans-IO encode/decode of the field section is decided under C14/C16), the close code put on the wire by connect's error paths, async scheduling.",
        "kani": [],
        "verus": [V("endpoint"), V("session")],
        "not_decided": ["request reaches the server byte-for-byte (end to end)", "URL / DNS / QUIC connect prefix"],
    },
    "C03": {
        "level": "proof",
        "claim": "Datagram codec and size arithmetic: for every quarter stream id and payload the encoder emits varint(qid)||payload with the exact announced size (all-or-nothing, Kani); the proto and the driver decoders return exactly the bytes after the id varint for inputs of ANY length, attributed to session 4*qid, and reject ids > 2^60-1 / truncated ids with H3_DATAGRAM_ERROR (Verus unit datagram + Kani on every byte string <= 12); Connection::max_datagram_size never underflows and is exact for any limit the peer may advertise. Driver: Driver::receive_datagram hands out only datagrams queued for the requested session, exactly as queued (other sessions' datagrams are dropped and the loop goes on), over ANY sequence of queued items (Verus unit driver). Send side: the driver's Datagram::write builds exactly varint(session id / 4) || payload for payloads of any length (Verus unit datagram, modular against the proto encoder's contract that Kani proves), and Driver::send_datagram hands exactly that image to QUIC and reports TooLarge IFF quinn does (never refusing a payload for its size otherwise).",
        "note": "Payload length bounded (16 quick / 256 thorough) on Kani; proto and driver Datagram::read for ANY length are Verus unit `datagram`; header part complete. Assumed: quinn refuses exactly frames above its max_datagram_size; loss/reordering are transport behaviour. Not decided: Driver::receive_datagram session filtering (async).",
        "kani": DATAGRAM_KANI + [DRIVER_DGRAM_HDR],
        "verus": [V("datagram"), V("driver")],
        "not_decided": ["quinn::Connection::send_datagram limit", "per-session filtering in the worker"],
    },
    "C04": {
        "level": "proof",
        "claim": "Capsule path and close-code conversion: a DATA payload is a CLOSE_WEBTRANSPORT_SESSION capsule iff type 0x2843 with a complete length and value (any length, Verus unit capsule; every payload <= 16, Kani); the close is accepted IFF 4 <= len <= 1028 and the reason is UTF-8, carries exactly the big-endian 32-bit code (all 2^32) and the reason bytes; every malformed capsule is H3_DATAGRAM_ERROR; a QUIC application close reaches the application with the same 62-bit code and reason, other causes never become an application close; the leaf future's ImmediateFin/UnexpectedFin distinction (clean finish vs abrupt end) is exact under every Pending pattern. Driver (Verus unit driver_streams, every sequence of read results on the session stream): ConnectStream::run skips non-DATA frames and unknown capsules, turns a CLOSE_WEBTRANSPORT_SESSION capsule into ApplicationClosed with exactly the peer's code and reason bytes (and resets the stream with H3_NO_ERROR), a clean FIN into ApplicationClosed(0, empty), and an abrupt end, reset or malformed capsule into a protocol error - never an application close. The chain to the application is closed by units driver (Worker::run: the ending error becomes the driver result, and the CONNECTION_CLOSE code on the wire is H3_NO_ERROR after a peer close / the registry code of a protocol error; Driver::accept_* / receive_datagram fail only with that driver result) and connection (Connection::accept_uni / accept_bi / open_* / receive_datagram turn DriverError::ApplicationClosed(a) into ConnectionError::ApplicationClosed(a) with the same code and reason, a protocol error into that LocalH3Error, and only 'not connected' into the QUIC-level cause).",
        "note": "Not decided: ConnectStream::run (clean FIN => (0, ''), reset => protocol failure), Worker::run, From<quinn::ConnectionError> (async / need a quinn::Connection). UTF-8 validation trusted (core::str::from_utf8) beyond 4-byte reasons.",
        "kani": CAPSULE_KANI + DRIVER_CLOSE + [ASYNC_LEAF_KANI[1]],
        "verus": [V("capsule", pair=("proto", "p_capsule_with_frame")), V("driver_streams"), V("connection"), V("driver")],
        "not_decided": ["ConnectStream::run", "ApplicationClose from quinn::ConnectionError"],
    },
    "C05": {
        "level": "proof",
        "claim": "Two halves. (a) SEGMENTATION - decided, holds: a control-plane reader that is polled to completion gives the same result however the peer's bytes are chunked and however often the source reports Pending (one-step inductive poll contracts of the leaf futures from ANY state, Kani; Frame::read_async and the read_frame_async loops as sequential compositions for inputs of any length, Verus unit frame_async; the stream run loops over every sequence of read results, unit driver_streams; the driver adapter under those readers, QuicRecvStream::poll_read, reports exactly the number of bytes quinn filled in per poll, passes an error on as it is and keeps Pending as Pending, unit driver_poll). (b) INTERLEAVING / cancellation - decided, VIOLATED on the unchanged tree (known finding D6): the contract 'every leaf read of Frame::read_async is started with nothing consumed since the frame began' (Verus unit cancel_safety) fails at its 2nd and 3rd reads, and a leaf future dropped while Pending loses the bytes it took (Kani p_get_*_cancel_keeps_input, concrete counterexamples replayed natively); Worker::run_impl drops the pending control-stream readers whenever another select! branch completes. Demonstrated on the real code by findings/D6-demo/demo_c05.rs (SETTINGS or a close capsule split in two with a datagram / stream in between => H3 error or lost close code).",
        "note": "The step from 'the reader future is not cancel-safe' to 'the driver cancels it' is by reading Worker::run_impl (tokio::select! is a macro outside both verifiers) and by the demonstration; the contract itself is checked on the real code. NOT decided: which events the worker reacts to in which order (schedules), the request stream's first frame (read in a spawned task, not in the select! loop).",
        "kani": ASYNC_LEAF_KANI[:3] + CANCEL_KANI,
        "verus": [V("cancel_safety"), V("frame_async"), V("driver_streams"), V("driver_poll")],
        "not_decided": ["schedules of the select! loop", "tokio::select! semantics (by reading)"],
    },
    "C06": {
        "level": "proof",
        "claim": "Code/arm mapping only: quinn reset/stop codes are converted to the application's Reset(c)/Stopped(c) unchanged for all 2^62 codes, other quinn error variants never become Reset/Stopped, and the varint conversions at the driver boundary are the identity. Stream wrappers (Verus unit driver_io): the stopped-notification reports STOP_SENDING(c) as Stopped(c) with the same code, a finished-and-acknowledged stream as Closed; QuicSendStream::finish succeeds IFF quinn reports the stream finished with everything acknowledged and otherwise fails with the mapped cause (Stopped(c), NotConnected, ...); reset(c) / stop(c) hand exactly c to quinn. Poll-level forwarding (Verus unit driver_poll, extracted bodies of the AsyncWrite impls of QuicSendStream, SendStream and BiStream): poll_shutdown (the FIN) reaches quinn's poll_shutdown, poll_flush its poll_flush and poll_write its poll_write with exactly the bytes offered, once each, and quinn's answer is returned unchanged.",
        "note": "Everything else on this path is quinn (delivery of the signal, finish-acknowledged semantics). Variants carrying a quinn::ConnectionError (ConnectionLost) are not constructed (bytes::Bytes is out of CBMC's reach).",
        "kani": DRIVER_KANI,
        "verus": [V("driver_io"), V("driver_poll")],
        "not_decided": ["finish/stopped futures over quinn", "signal delivery"],
    },
    "C09": {
        "level": "proof",
        "claim": "Only the ATTRIBUTION half of the property ('never misattributed'), as a chain of per-function contracts for every input: (1) the error the driver ends with is what each stream loop / handler computed from the peer's behaviour (units driver_streams, driver: application close with the peer's exact code and reason, the prescribed protocol error, or NotConnected); (2) Worker::run stores exactly that error as the driver result and closes the QUIC connection with H3_NO_ERROR after a peer close resp. the registry code of the protocol error - never another code; (3) every Driver operation that waits on the worker (accept_settings, accept_session, register_session, accept_uni, accept_bi, receive_datagram) fails ONLY with that driver result; (4) every Connection operation turns it into the ConnectionError naming the same cause (ApplicationClosed with the same code and reason, LocalH3Error with the same code, otherwise the QUIC-level cause), and a QUIC-level close maps to its own arm (Kani on From<quinn::ConnectionError>: an application close keeps its 62-bit code and reason, timeout / local close / reset / version mismatch keep their own arm).",
        "note": "NOT decided (no per-call contract expresses them; see DESIGN): that every pending and later call completes, in bounded time, without hanging or panicking; that background processing stops when the handles are dropped; what the peer sees then. Assumed stand-ins: tokio channels / watch (SharedResult: first set wins), quinn handles; Worker::run_impl's select! loop is an unknown function returning the ending error (its branches - handlers and stream loops - are under contract separately, their interleaving is not).",
        "kani": DRIVER_CLOSE,
        "verus": [V("driver"), V("connection"), V("driver_streams")],
        "not_decided": ["prompt / total termination (liveness)", "no hang / no panic", "drop of all handles stops the worker"],
    },
    "C10": {
        "level": "proof",
        "claim": "Decision logic of certificate-hash pinning, for EVERY leaf certificate, handshake time and pinned set (Verus unit tls_pin on the extracted body of ServerHashVerification::verify_server_cert): the verifier answers Ok IFF the leaf parses AND not_before <= now <= not_after AND (not_after - not_before) exists and is <= 14 days (the constant SELF_MAX_VALIDITY is proved to be 14 days) AND the key algorithm is id-ecPublicKey with parameters prime256v1 AND the leaf's SHA-256 is in the configured set; no value of the other inputs lets a certificate failing one condition through.",
        "note": "Assumed (stand-in interfaces with uninterpreted views, listed in the evidence): x509-parser (from_der, validity, ASN1Time order and subtraction, Oid equality, Any::as_oid), time (OffsetDateTime::from_unix_timestamp, Duration::days / order), sha2 (Sha256::digest), std BTreeSet::contains, u64->i64 try_into, rustls error conversion; precondition: the handshake time is representable as an OffsetDateTime (otherwise the code panics with 'time overflow', which is not an acceptance). NOT decided: that rustls calls this verifier and aborts the handshake on Err, signature verification (delegated to rustls), the default WebPKI trust policy, 'a refused server never yields a session' (driver). No counterexample input: Verus gives none and no Kani harness can execute x509-parser symbolically.",
        "kani": [],
        "verus": [V("tls_pin")],
        "not_decided": ["rustls handshake integration", "default trust policy (webpki)", "no session after refusal (driver)"],
    },
    "C11": {
        "level": "proof",
        "claim": "Every sans-IO decoder under contract is total and exact: on EVERY byte string up to the stated length (Kani: varints, frames incl. the 4096 limit, stream headers, datagrams, capsules, QPACK prefix integers of all widths, field-line types) and for inputs of ANY length (Verus: Frame::read / read_async, StreamHeader::read / read_async, Settings::with_frame and Decoder::decode equal to reference interpreters, decode_string, Capsule::with_frame, Datagram::read): no panic / arithmetic overflow / OOB, loops terminate with progress, allocations are bounded by the parse limit resp. the input length, numeric overflow is an error, returned ids respect their type invariants.",
        "note": "Assumed: httlib-huffman, String::from_utf8, HashMap, Vec, Cow, Bytes operations (each listed as an assumed helper contract in the Verus units); decode_string is taken as a deterministic function of its input by Decoder::decode.",
        "kani": [VARINT_KANI[2], VARINT_KANI[6], VARINT_KANI[7], VARINT_KANI[8], VARINT_KANI[9], FRAME_READ_20, FRAME_READ_4200, FRAME_KIND_KANI[1],
                 STREAM_HEADER_KANI[0], STREAM_KIND_KANI[1], DATAGRAM_KANI[4], CAPSULE_KANI[0], CAPSULE_KANI[1], CAPSULE_KANI[2], CAPSULE_KANI[3]]
                + QPACK_INT_DEC + QPACK_MISC + [IDS_KANI[4], IDS_KANI[7], SETTING_ID_KANI[2]] + [ASYNC_LEAF_KANI[1], ASYNC_LEAF_KANI[2]],
        "verus": [V("frame", pair=("proto", "p_frame_read_matches_reference_20")), V("qpack_decode", pair=("proto", "p_qpack_decode_integer_n7")), V("settings", pair=("proto", "c_settingid_parse")), V("stream_header", pair=("proto", "p_stream_header_read_matches_reference")), V("frame_async"), V("capsule", pair=("proto", "p_capsule_with_frame"))],
        "not_decided": ["Decoder::decode loop / decode_string / Settings::with_frame under Kani (containers)"],
    },
    "C12": {
        "level": "proof",
        "claim": "Sans-IO typestate layer: on each of the four stream roles, from an arbitrary first-frame state, the accept/reject verdict and the error code for every frame kind equal the RFC 9114 7.2 / WebTransport-draft rule table - for inputs of ANY length with any number of skipped unknown frames, sync and async (Verus units frame, frame_async) and on bounded symbolic inputs on the real crate (Kani); invalid session ids -> H3_ID_ERROR, oversize -> H3_EXCESSIVE_LOAD, truncation at FIN -> H3_FRAME_ERROR, clean FIN at a frame boundary passed through, unknown uni stream type -> H3_STREAM_CREATION_ERROR; SETTINGS: reserved/duplicate -> H3_SETTINGS_ERROR, truncated -> H3_FRAME_ERROR; the 15 error codes and the setting ids equal their registry values. Driver (Verus units driver, driver_streams): a second control / QPACK encoder / QPACK decoder stream is H3_STREAM_CREATION_ERROR and GREASE stream types are ignored (handle_uni_h3_stream); DATA or SETTINGS as first frame of a request stream is H3_FRAME_UNEXPECTED (handle_bi_h3_stream); on the peer's control stream the first frame must be SETTINGS (H3_MISSING_SETTINGS), afterwards only reserved types are tolerated (H3_FRAME_UNEXPECTED, incl. a second SETTINGS), and every kind of end of a critical stream (peer control, local control, QPACK streams) is H3_CLOSED_CRITICAL_STREAM - for every sequence of frames / I/O outcomes. Whatever protocol error ends the driver, Worker::run closes the QUIC connection with exactly that error's registry code (unit driver).",
        "note": "Quick tier: well-formed single frames (bounded). Thorough tier: every byte string <= 14 bytes. Not decided: the driver's reaction (RemoteSettingsStream::run, handle_uni_h3_stream, missing/duplicate SETTINGS, closed critical streams) - async over quinn.",
        "kani": STREAM_KANI_QUICK[:5] + STREAM_KANI_BUFFERED + STREAM_KANI_THOROUGH + MISC_KANI[:1] + SETTING_ID_KANI[1:3] + ASYNC_LEAF_KANI[:3],
        "verus": [V("frame", pair=("proto", "p_frame_read_matches_reference_20")), V("settings", pair=("proto", "c_settingid_parse")), V("frame_async"), V("stream_header", pair=("proto", "p_uniremote_upgrade")), V("driver"), V("driver_streams")],
        "not_decided": ["driver-level rules: missing/repeated SETTINGS, duplicated/closed critical streams, what is put on the wire"],
    },
    "C13": {
        "level": "proof",
        "claim": "Frames, settings and capsules at the sans-IO layer: a frame of unknown type is consumed whole (type, length, payload) before it is reported, on EVERY byte string (Kani, complete) and for any length (Verus), so the skip loops - proved for ANY number of unknown frames, sync and async - never re-read its content, and a clean end of stream after skipped frames stays a clean end; GREASE predicates equal 0x1f*N+0x21 for all 2^62 ids and GREASE frames are returned whole; unknown setting ids are ignored without changing the collected settings (reference interpreter); unknown capsule types yield no capsule. Driver (Verus unit driver_streams): on the session stream non-DATA frames and DATA frames holding no or an unknown capsule are skipped with no effect, any number of them; GREASE frames on the control stream after SETTINGS are tolerated; GREASE unidirectional stream types are ignored.",
        "note": "Skip loop: Kani shows base case + one step per typestate (thorough tier, bounded); quick tier exercises one leading unknown frame on well-formed input. Unknown frames above the 4096-byte parse limit are refused like known ones (H3_EXCESSIVE_LOAD). Not decided: driver reactions to unknown unidirectional stream types (async).",
        "kani": FRAME_KIND_KANI + [FRAME_READ_20, FRAME_READ_4200] + STREAM_KANI_QUICK[:4] + STREAM_KANI_THOROUGH[:4]
                + [STREAM_KIND_KANI[0], SETTING_ID_KANI[0], SETTING_ID_KANI[2], CAPSULE_KANI[0], CAPSULE_KANI[1]] + ASYNC_LEAF_KANI[:3],
        "verus": [V("frame", pair=("proto", "p_frame_read_matches_reference_20")), V("settings", pair=("proto", "c_settingid_parse")), V("frame_async"), V("capsule", pair=("proto", "p_capsule_with_frame")), V("driver_streams")],
        "not_decided": ["unknown unidirectional stream types in the worker", "ConnectStream capsule loop"],
    },
    "C14": {
        "level": "proof",
        "claim": "Exact inverses with exact sizes for varints (all v < 2^62, all four reader/writer impls, shortest form, untouched-on-error), stream headers (complete), frame headers (complete) with payloads up to the stated bound, datagrams, and QPACK prefix integers (all usize values, all widths); the QPACK static table is RFC 9204 Appendix A. Async encoders: StreamHeader::write_async and Frame::write_async emit exactly the bytes write_size announces; PutBuffer / PutVarint never lose or repeat progress across Pending; the encoder's static-table index is used only for an EXACT (name, value) match.",
        "note": "Frame/datagram payload length is bounded on Kani (8/70, 16/256); frame encoders for ANY payload length are Verus unit frame_write. Field sections as wholes: Decoder::decode == reference interpreter (unit qpack_decode), Encoder::encode == one RFC 9204 line per field (unit qpack_encode), and decode(encode(h)) == h's fields (lemma unit qpack_roundtrip) - modulo the listed axioms on the primitives (string literal/Huffman codec and HashMap are ASSUMED); Headers::generate_frame's HashMap iteration order and Settings::generate_frame are not under contract.",
        "kani": VARINT_KANI + FRAME_WRITE_KANI + [FRAME_READ_20, STREAM_HEADER_KANI[1], DATAGRAM_KANI[0], DATAGRAM_KANI[1], DATAGRAM_KANI[2], DATAGRAM_KANI[3]]
                + QPACK_INT_ENC + [QPACK_MISC[1], QPACK_LOOKUP, VEC_PUT_BYTES] + ASYNC_LEAF_KANI + ASYNC_WRITE_KANI[:2] + [QPACK_LOOKUP_QUICK],
        "verus": [V("ids", pair=("proto", "c_varint_size")), V("qpack_encode"), V("frame_write", pair=("proto", "p_frame_write_roundtrip_8")), V("qpack_decode", pair=("proto", "p_qpack_decode_integer_n7")), V("qpack_roundtrip")],
        "not_decided": ["Headers::generate_frame <-> with_frame and Settings::generate_frame <-> with_frame as wholes"],
    },
    "C15": {
        "level": "proof",
        "claim": "One-shot, buffered and asynchronous decoders of frames and stream headers agree with ONE reference: Kani on every byte string (one-shot vs buffered, offset unchanged unless a value is returned, buffered typestate readers at every cut point), Verus for any length incl. the async copies of the logic (Frame::read_async, StreamHeader::read_async, the four read_frame_async loops, upgrade_async) as sequential compositions of the leaf futures; the four leaf futures satisfy one-step inductive poll contracts from ANY state - every chunking and every Pending pattern - incl. ImmediateFin iff nothing was taken and UnexpectedFin iff something was.",
        "note": "Unchecked assumption: async fn desugaring composes the awaits sequentially and keeps no state beyond the leaf futures', so chunking-independence lifts to Frame::read_async / StreamHeader::read_async / read_frame_async (the whole state machines do not scale in CBMC). GetBuffer/PutBuffer steps shown for lengths <= 8.",
        "kani": [FRAME_READ_20, FRAME_READ_4200, STREAM_HEADER_KANI[0], VARINT_KANI[9], FRAME_ASYNC_LIMIT] + ASYNC_LEAF_KANI + STREAM_KANI_BUFFERED + STREAM_KANI_THOROUGH[4:],
        "verus": [V("frame", pair=("proto", "p_frame_read_matches_reference_20")), V("frame_async"), V("stream_header", pair=("proto", "p_stream_header_read_matches_reference"))],
        "not_decided": ["async composites as whole state machines"],
    },
    "C16": {
        "level": "proof",
        "claim": "Absolute wire format of the encoders against an independent RFC transcription (never the crate's decoder): frame / stream / setting / capsule / error-code registry values, ALPN h3, the QPACK static table == RFC 9204 Appendix A, frame and stream-header encoders and the WT preambles == RFC bytes for any payload length, datagram prefix, QPACK prefix integers == RFC 7541 5.1, Encoder::encode == 00 00 + exactly one RFC 9204 4.5 static/literal line per field, and the endpoint's local SETTINGS advertise WebTransport, H3 datagrams and extended CONNECT with a zero-capacity QPACK table. Datagrams: the driver's send path emits varint(session id / 4) || payload (unit datagram). Control stream: the worker opens exactly one local control stream, with the Control header, and sends SETTINGS on it exactly once as the first thing (unit driver: Worker::open_and_send_settings; a refused control stream is H3_CLOSED_CRITICAL_STREAM). Driver adapter (Verus unit driver_poll): the AsyncWrite impl through which the sans-IO crate writes every protocol unit (QuicSendStream::poll_write) offers quinn exactly the bytes it was given and reports exactly the count quinn accepted (a short write is reported as short), for every buffer and every answer of quinn.",
        "note": "The content of the local SETTINGS (WebTransport, H3 datagrams, extended CONNECT, zero-capacity QPACK table) and Encoder::encode's line-per-field grammar are Verus units. Not under contract (HashMap iteration / sort closure / driver): the order in which Settings::generate_frame emits the pairs, sorted_headers ordering (pseudo-headers first), 'exactly one control stream, SETTINGS first' (worker).",
        "kani": [FRAME_KIND_KANI[3], STREAM_KIND_KANI[3], SETTING_ID_KANI[3]] + MISC_KANI + [QPACK_MISC[1]] + QPACK_INT_ENC[:2]
                + [STREAM_KANI_QUICK[5], STREAM_HEADER_KANI[1], FRAME_WRITE_KANI[0], DATAGRAM_KANI[2], CAPSULE_KANI[0]] + ASYNC_LEAF_KANI[3:5] + ASYNC_WRITE_KANI + [QPACK_LOOKUP_QUICK],
        "verus": [V("qpack_encode"), V("frame_write", pair=("proto", "p_frame_write_roundtrip_8")), V("settings"), V("datagram"), V("driver"), V("driver_poll")],
        "not_decided": ["LocalSettingsStream content", "pseudo-header ordering", "Encoder::encode as a whole", "worker emission order"],
    },
    "C17": {
        "level": "proof",
        "claim": "Proof, for all 2^62 ids, of the identifier algebra: every function of ids.rs (classification, session-id admission, quarter-stream-id conversions, range, unsafe preconditions, debug_asserts) satisfies its contract against the RFC 9000 2.1 reference, on two back ends independently (Kani in place, Verus on extracted text); quinn stream ids convert unchanged. Driver (Verus unit driver, ANY sequence of queued streams / datagrams): Driver::accept_uni / accept_bi return only streams naming the requested session; a stream naming another session is stopped with WEBTRANSPORT_BUFFERED_STREAM_REJECTED (the only code the assumed stop accepts) and the loop goes on - the call fails only with the driver's own result; receive_datagram drops foreign datagrams. Connection (unit connection) always asks the driver for ITS OWN session id (accept_uni / accept_bi / open_uni / open_bi / receive_datagram / send_datagram).",
        "note": "Only the algebra is decided. Not decided: that the driver refuses foreign-session streams with BufferedStreamRejected and drops foreign datagrams (async over quinn).",
        "explanation": "Identifier algebra only: every function of ids.rs under contract on both back ends, for all 2^62 ids.",
        "kani": IDS_KANI + [DRIVER_STREAMID, DATAGRAM_KANI[4], MISC_KANI[0]],
        "verus": [V("ids", pair=("proto", "p_qstream_session_inverse_real")), V("driver"), V("connection")],
        "not_decided": ["Driver::accept_uni/accept_bi/receive_datagram filtering of foreign sessions and the BufferedStreamRejected stop code (async over quinn)"],
    },
    "C18": {
        "level": "proof",
        "claim": "StatusCode: every numeric constructor yields Ok(c) iff 100 <= v <= 599 with c == v (complete), is_successful iff 200..=299, FromStr accepts exactly decimal strings of values in 100..=599; admission predicates for ALL header maps (Verus unit session): a request is admitted iff :method CONNECT, :scheme https, :protocol webtransport, :authority and :path present, each refusal names the documented cause, the request keeps the whole map; a response is accepted iff :status is present and a valid status, depending on nothing else. Driver (Verus units driver, endpoint): a request that is not a WebTransport extended CONNECT is refused ON ITS OWN STREAM (H3_MESSAGE_ERROR for a malformed request - a mandatory pseudo-header missing, RFC 9114 4.1.2 -, H3_MESSAGE_ERROR or H3_REQUEST_REJECTED for a well-formed request this endpoint does not serve: the only codes the assumed stop accepts for that request) and the connection goes on (Ok), admitted requests are handed to the application queue; on the client a response counts as acceptance only with a valid 2xx status (see C02). The canned answers are 200 (ok) and 403 / 404 / 429 (forbidden, not_found, too_many_requests): a refusal is never a 2xx (unit session). Reserved fields: SessionRequest::insert refuses exactly the five reserved names and stores any other field under EXACTLY its own name with its own value (Headers::insert: nothing else changes), so no call can alter a reserved pseudo-header (unit session).",
        "note": "FromStr bounded to strings <= 5 bytes (all u16 decimals; u16::from_str trusted beyond). Known finding: StatusCode::default() == 0. Not under contract: SessionRequest::new (url crate). Headers::insert / SessionRequest::insert are verified over an assumed string map (HashMap<String,String> with a ghost view, ToString as an assumed trait, membership in RESERVED_HEADERS as an assumed predicate whose list Kani proves).",
        "kani": STATUS_KANI + [K("p_reserved_headers_list", "RESERVED_HEADERS is exactly the five WebTransport pseudo-headers", [P + "session.rs::SessionRequest::RESERVED_HEADERS"])],
        "verus": [V("session"), V("driver"), V("endpoint")],
        "not_decided": ["SessionRequest::new / url crate", "driver reaction to refused requests"],
    },
    "C19": {
        "level": "proof",
        "claim": "Only the generation half of the property, for every input (Verus unit self_signed on the extracted builder bodies): the self-signed identity builder asks the certificate generator for an ECDSA P-256 key pair and nothing else, hands it exactly the requested subject alternative names, not_before and not_after (from_now_utc reads the clock once; validity_days(d) / offset_from_not_before(o) give not_after = not_before + d days / + o), fails with InvalidSan exactly when the generator rejects the names, and returns the signed certificate as a one-element chain together with that same key pair's PKCS#8 key; Identity::self_signed requests a window that starts now and lasts 14 days.",
        "note": "Assumed stand-ins: rcgen (key generation for the named algorithm, typing each SAN as DNS name or IP address, X.509v3 encoding, signing), time (clock, date arithmetic), rustls-pki-types wrappers. NOT decided (no contract within reach: file I/O, PEM text, format!/split/parse string processing - Verus has no str byte reasoning and format! on 32 symbolic bytes is beyond CBMC): PEM store-then-load round trips, SHA-256 digest text round trips in both formats, rejection of malformed PEM/DER/digest text, that the generated certificate is accepted by hash pinning with its own hash (C10 decides the verifier's logic given the certificate's fields). The generic SAN collection (IntoIterator + map + collect) is replaced by an already collected Vec<String>.",
        "kani": [],
        "verus": [V("self_signed")],
        "not_decided": ["PEM round trips", "digest text round trips", "malformed input rejection", "X.509 encoding (rcgen)"],
    },
    "C20": {
        "level": "proof",
        "claim": "Configuration builders, for every input (Verus units config, tls_config on the extracted builder bodies): each documented bind option yields exactly its address family, address, port and dual-stack mode (V4: IPv4 only; V6: IPv6 with IPV6_V6ONLY; Dual: IPv6 with dual stack allowed; Local = loopback, InAddrAny = unspecified; explicit addresses and sockets are stored as given; the client binds port 0); max_idle_timeout stores exactly the requested duration and REFUSES (Err(InvalidIdleTimeout), nothing altered) exactly the durations that do not fit a QUIC varint of milliseconds; keep_alive_interval and allow_migration store exactly the requested value and change nothing else; build() hands the stored bind configuration, endpoint configuration, TLS configuration, transport configuration and migration flag to the QUIC configuration unchanged; the default TLS configurations (server and client) enable TLS 1.3 only and advertise exactly the ALPN list [h3] (token value proved on the real crate by Kani), and a custom certificate verifier is installed iff one is given.",
        "note": "Assumed stand-ins: std::net address types (concrete model), std::time::Duration, quinn TransportConfig / ServerConfig / ClientConfig / IdleTimeout::try_from (records of what their setters were given; the 2^62 ms bound of IdleTimeout is quinn's), rustls config builders (record versions / verifier / ALPN), <[T]>::to_vec, Option::transpose. NOT decided: BindAddressConfig::bind_socket (socket2 system calls), that quinn and rustls honour the configuration objects, reloading a server configuration, the with_identity / with_native_certs / with_server_certificate_hashes wrappers (iterator adapters, native cert store).",
        "kani": [K("p_alpn_is_h3", "ALPN token is h3", [P + "lib.rs::WEBTRANSPORT_ALPN"])],
        "verus": [V("config"), V("tls_config")],
        "not_decided": ["bind_socket system calls", "quinn/rustls applying the configuration", "configuration reload"],
    },
}
for _p in PROPS.values():
    _p.setdefault("technique", TECH)


def assumption_scan():
    """Mechanical scan for every construct that is an assumption rather than a proof."""
    counts = {}
    pats = ["kani::assume", "kani::stub(", "stub_verified", "external_body", "assume_specification", "admit()",
            "assume(", "external_fn_specification", "external_type_specification"]
    files = glob.glob(os.path.join(HERE, "kani", "**", "*.rs"), recursive=True) + \
        glob.glob(os.path.join(HERE, "verus", "**", "*.tpl"), recursive=True)
    for f in files:
        t = open(f).read()
        for p in pats:
            c = t.count(p)
            if c:
                counts.setdefault(p, {})[os.path.relpath(f, HERE)] = c
    return counts


def setup():
    """Pre-builds (offline) the cargo-kani dependency graphs and smoke-runs verus."""
    import sys
    sys.path.insert(0, os.path.join(HERE, "lib"))
    import kani
    import verus
    kani.ensure_playback_files()
    rc = 0
    res, wall, out = kani.run("proto", ["c_varint_size"], jobs=4, timeout=1800)
    print("kani proto build+smoke: %s in %.0fs" % (res["c_varint_size"]["status"], wall))
    if res["c_varint_size"]["status"] != "ok":
        print(out[-3000:])
        rc = 1
    if any(h.get("crate") == "driver" for cfg in PROPS.values() for h in cfg.get("kani", [])):
        names = [h["harness"] for cfg in PROPS.values() for h in cfg.get("kani", []) if h.get("crate") == "driver"][:1]
        res, wall, out = kani.run("driver", names, jobs=4, timeout=2400)
        print("kani driver build+smoke: %s in %.0fs" % (res[names[0]]["status"], wall))
        if res[names[0]]["status"] != "ok":
            print(out[-3000:])
            rc = 1
    r = verus.run_unit("ids", with_canary=False)
    print("verus smoke:", r["status"], r.get("reason", ""))
    if r["status"] != "ok":
        rc = 1
    return rc


NOT_APPLICABLE = {
    "C07": "liveness/independence over task interleavings (stalled streams never block others): whole-history concurrency property, outside contract-based deductive verification (no Kani threads, Verus would need permission types on tokio internals; 'a bounded queue slot is not held across a wait on the peer' is not expressible as a per-function contract without hand-inserted ghost plumbing). By reading and by a demonstration (findings/D7-observed, DESIGN section 2) the property does NOT hold on the unchanged tree: one stalled peer bidirectional stream blocks the acceptance of all later ones; this is an observation, not the verdict of a check.",
    "C08": "exactly-once delivery over mpsc queues, cancellation and multi-task accept: whole-history concurrency property, no per-call contract expresses it. The per-call piece is under contract in C17 (unit driver: each accept call returns the FIRST queued stream of its session, skipping none, inventing none; foreign streams are refused).",
}


def manifest():
    checks = []
    for pid in sorted(PROPS):
        cfg = PROPS[pid]
        checks.append({
            "property_id": pid,
            "quick_cmd": "./check %s --tier quick" % pid,
            "thorough_cmd": "./check %s --tier thorough" % pid,
            "evidence_file": "/verif/evidence/%s.json" % pid,
            "replay_cmd_template": "./check --replay {path}",
            "engine": "kani-inplace+verus-extract",
            "level_claimed": {"category": cfg.get("level", "proof"), "text": cfg["claim"], "design_ref": cfg.get("design_ref", "DESIGN.md §3 " + pid)},
            "level_note": cfg["note"],
            "technique": cfg.get("technique", "contract-based deductive verification: Kani function contracts / full-domain loop-free harnesses on the real crate + Verus contracts on mechanically extracted functions"),
        })
    na = [{"property_id": k, "reason": v} for k, v in sorted(NOT_APPLICABLE.items()) if k not in PROPS]
    return {
        "version": 1,
        "setup_cmd": "./check --setup",
        "hooks": {
            "guard": "cfg(kani)",
            "enable": "cargo kani sets --cfg kani; the hook `#[cfg(kani)] #[path=\"/verif/kani/<crate>/mod.rs\"] mod verif_kani;` and the `#[cfg_attr(kani, kani::requires/ensures(..))]` contracts are compiled only then",
            "baseline_off_cmd": "cd /repo && cargo nextest run --workspace --no-fail-fast --offline || (cd /repo && cargo test --workspace --no-fail-fast --offline)",
            "source_commits": HOOK_COMMITS,
            "add_only": True,
        },
        "engines": [
            {"name": "kani-inplace", "path": "/verif/kani", "serves_properties": sorted(PROPS), "kind_free_text": "Kani 0.68/CBMC: contracts attached in place on the real crates under cfg(kani); proof_for_contract, stub_verified, full-domain loop-free harnesses; concrete playback replays counterexamples natively"},
            {"name": "verus-extract", "path": "/verif/verus", "serves_properties": sorted(p for p in PROPS if PROPS[p].get("verus")), "kind_free_text": "Verus 0.2026.09.13/z3 on functions extracted mechanically from /repo on every run (lib/verus.py, rewrites R1-R13 listed per item in the evidence) with contract overlays from verus/units/*.rs.tpl"},
        ],
        "checks": checks,
        "not_applicable": na,
        "notes": "Single technique family: contract-based deductive verification of the real code. Exit 2 (UNDECIDED lines) means a tool limit or lost extraction anchor, never an alarm. known_findings.json lists genuine defects (fixed or known).",
    }
