"""Which obligations decide which property. One entry per claimed property.

kani entry : {harness, crate (proto|driver), tier (quick|thorough), kind (complete|bounded), bound,
              what, functions}
verus entry: {unit, tier, pair: (crate, harness) paired Kani harness used to look for a failing input}
"""
import glob
import os
import re
import subprocess

HERE = os.path.dirname(os.path.abspath(__file__))

TRUSTED_BASE = [
    "rustc 1.95 / LLVM; Kani 0.68 MIR->GOTO translation; CBMC 6.11 + CaDiCaL/kissat",
    "Verus 0.2026.09.13 + z3; vstd specs of core/alloc items",
    "usize = 64 bit target",
    "RFC transcription in /verif/kani/proto/spec.rs and its Verus mirror in the unit templates",
    "extraction rewrites R1-R8 of /verif/lib/verus.py preserve semantics (listed per item in coverage.units[].extraction)",
]

GLOBAL_ASSUMPTIONS = [
    "Kani: termination is only established where an unwinding assertion passes; panics/overflow/OOB are checked on every path (equivalent to debug and release agreeing)",
    "Verus: machine integers are checked for overflow (not treated as mathematical); every loop has a decreases clause",
    "std/alloc containers, String::from_utf8, u16::from_str, httlib-huffman, url, bytes::Bytes, quinn, tokio are trusted wherever they are called",
]

P = "wtransport-proto/src/"
D = "wtransport/src/"


def K(h, what, functions=(), tier="quick", kind="complete", bound="", crate="proto", reproducer=None):
    d = {"harness": h, "what": what, "functions": list(functions), "tier": tier, "kind": kind, "bound": bound,
         "crate": crate}
    if reproducer:
        d["reproducer"] = reproducer
    return d


def V(unit, tier="quick", pair=None):
    return {"unit": unit, "tier": tier, "pair": pair}


VARINT_KANI = [
    K("c_varint_try_from_u64", "in-place contract: Ok(v) <=> value < 2^62, value kept", [P + "varint.rs::VarInt::try_from_u64"]),
    K("c_varint_size", "in-place contract: size == RFC 9000 table 4", [P + "varint.rs::VarInt::size"]),
    K("c_varint_parse_size", "in-place contract: parse_size == 1 << (first >> 6)", [P + "varint.rs::VarInt::parse_size"]),
    K("p_varint_consts_and_conversions", "MAX/MIN/From/TryFrom keep the value; size is the shortest form",
      [P + "varint.rs::VarInt::{from_u32,into_inner,From<u8|u16|u32>,TryFrom<u64>}"]),
    K("p_buffer_writer_put_varint", "put_varint writes exactly size(v) RFC bytes or leaves buffer+offset untouched, all v, capacities 0..9",
      [P + "bytes.rs::BufferWriter::put_varint", "octets::OctetsMut::put_varint"]),
    K("p_buffer_writer_put_bytes", "put_bytes all-or-nothing copy", [P + "bytes.rs::BufferWriter::put_bytes"]),
    K("p_buffer_reader_get_varint", "get_varint: Some <=> enough bytes; value/consumption per RFC; None leaves offset",
      [P + "bytes.rs::BufferReader::get_varint", "octets::Octets::get_varint"]),
    K("p_slice_get_varint", "<&[u8]>::get_varint same contract", [P + "bytes.rs::<&[u8] as BytesReader>::get_varint"]),
    K("p_readers_get_bytes", "get_bytes on both readers: zero-copy alias, all-or-nothing",
      [P + "bytes.rs::BufferReader::get_bytes", P + "bytes.rs::<&[u8] as BytesReader>::get_bytes"]),
    K("p_buffer_reader_child", "skip/child/commit: commit advances parent by child's offset, drop leaves it",
      [P + "bytes.rs::BufferReader::{skip,child,buffer_remaining}", P + "bytes.rs::BufferReaderChild::commit"]),
    K("p_varint_roundtrip_buffer", "decode(encode(v)) == v consuming size(v), all v < 2^62, both readers",
      [P + "bytes.rs::BufferWriter::put_varint", P + "bytes.rs::BufferReader::get_varint"]),
    K("p_vec_put_varint", "Vec<u8>::put_varint appends exactly the RFC encoding", [P + "bytes.rs::<Vec<u8> as BytesWriter>::put_varint"]),
]

IDS_KANI = [
    K("c_streamid_is_bidirectional", "in-place contract == RFC 9000 §2.1", [P + "ids.rs::StreamId::is_bidirectional"]),
    K("c_streamid_is_client_initiated", "in-place contract == RFC 9000 §2.1", [P + "ids.rs::StreamId::is_client_initiated"]),
    K("c_streamid_is_local", "in-place contract: local <=> (client-initiated != is_server)", [P + "ids.rs::StreamId::is_local"]),
    K("p_streamid_table", "classification table by id mod 4, all 2^62 ids", [P + "ids.rs::StreamId::*"]),
    K("c_sessionid_try_from_session_stream", "Ok <=> id mod 4 == 0 (modular: against is_* contracts)",
      [P + "ids.rs::SessionId::try_from_session_stream"]),
    K("p_sessionid_try_from_varint", "try_from_varint against try_from_session_stream's contract", [P + "ids.rs::SessionId::try_from_varint"]),
    K("p_sessionid_getters", "getters return the id", [P + "ids.rs::SessionId::{into_u64,into_varint,session_stream}"]),
    K("c_qstreamid_try_from_varint", "Ok <=> v <= 2^60-1", [P + "ids.rs::QStreamId::try_from_varint"]),
    K("c_qstreamid_from_session_id", "q == s/4, in range; debug_assert + unsafe precondition discharged", [P + "ids.rs::QStreamId::from_session_id"]),
    K("c_qstreamid_into_stream_id", "s == 4q, in range; debug_assert + unsafe precondition discharged", [P + "ids.rs::QStreamId::into_stream_id"]),
    K("c_qstreamid_into_session_id", "modular against into_stream_id/is_* contracts", [P + "ids.rs::QStreamId::into_session_id"]),
    K("p_qstream_session_inverse_modular", "mutual inverses from the contracts alone", []),
    K("p_qstream_session_inverse_real", "mutual inverses on the real bodies, constants", [P + "ids.rs::QStreamId::*"]),
]

STATUS_KANI = [
    K("p_statuscode_numeric_ctors", "TryFrom<u8|u16|u32|u64>/try_from_u32: Ok(c) <=> 100<=v<=599, c==v; constants",
      [P + "ids.rs::StatusCode::{TryFrom<u8>,TryFrom<u16>,TryFrom<u32>,TryFrom<u64>,try_from_u32,into_inner}"]),
    K("p_statuscode_default_in_range", "Default constructor stays within 100..=599", [P + "ids.rs::StatusCode::default"]),
    K("p_statuscode_is_successful", "is_successful <=> 200..=299", [P + "ids.rs::StatusCode::is_successful"]),
    K("p_statuscode_from_str", "FromStr: Ok(c) => 100<=c<=599 and c is the decimal value; out-of-range digit strings are Err",
      [P + "ids.rs::<StatusCode as FromStr>::from_str"], kind="bounded", bound="strings of <= 5 ASCII bytes (all u16 decimals)",
      reproducer="\"99\".parse::<wtransport_proto::ids::StatusCode>()"),
]

FRAME_KANI = [
    K("c_framekind_is_id_exercise", "FrameKind::is_id_exercise == RFC 9114 GREASE predicate 0x1f*N+0x21, all 2^62 ids", [P + "frame.rs::FrameKind::is_id_exercise"]),
    K("c_framekind_parse", "FrameKind::parse: four registered types, GREASE kept with id, else unknown (exact arithmetic)", [P + "frame.rs::FrameKind::parse"]),
    K("c_framekind_id", "FrameKind::id is the registry value whose parse is the kind", [P + "frame.rs::FrameKind::id"]),
    K("p_framekind_id_parse_inverse", "parse(id(k)) == k; registry constants 0/1/4/0x41; parse limit 4096", [P + "frame.rs::frame_kind_ids::*"]),
    K("p_grease_facts", "facts assumed by the uninterpreted GREASE oracle hold for the RFC predicate", []),
]

FRAME_READ_20 = K("p_frame_read_matches_reference_20",
                  "every byte string <= 20 bytes: Frame::read and read_from_buffer == reference parser (value / need-more / error class, exact consumption, unknown frames consumed whole, offset moves only on success)",
                  [P + "frame.rs::Frame::read", P + "frame.rs::Frame::read_from_buffer", P + "frame.rs::Frame::{new,new_webtransport,kind,payload,session_id}"],
                  reproducer="wtransport_proto::frame::Frame::read(&mut &[0x07u8, 0x01, 0x00][..]) then inspect the reader: only 1 byte consumed")

QPACK_INT_KANI = [
    K("p_qpack_decode_integer_n%d" % n,
      "every byte string <= 12 octets: decode_integer::<%d> == RFC 7541 5.1 (value, consumption, UnexpectedFin, IntegerOverflow iff > usize::MAX or > 10 continuation octets); no shift/add overflow" % n,
      [P + "qpack.rs::Decoder::decode_integer"],
      reproducer="wtransport_proto::qpack::Decoder::decode([0x00, 0x00, 0xff, 0xff,0xff,0xff,0xff,0xff,0xff,0xff,0xff,0xff,0xff,0x01]) (debug build: panics 'attempt to shift left with overflow')")
    for n in (3, 4, 6, 7, 8)
] + [
    K("p_qpack_encode_integer_n%d" % n,
      "all usize values, all flags, all capacities: encode_integer::<%d> output == RFC 7541 5.1; decode(encode(v)) == v with exact consumption" % n,
      [P + "qpack.rs::Encoder::encode_integer", P + "qpack.rs::Decoder::decode_integer"])
    for n in (3, 4, 6, 7, 8)
]

HOOK_COMMITS = ["940a808", "d1760cd"]

PROPS = {
    "C17": {
        "level": "proof",
        "claim": "Proof, for all 2^62 ids, of the identifier algebra: every function of ids.rs (classification, session-id admission, quarter-stream-id conversions, range, unsafe preconditions, debug_asserts) satisfies its contract against the RFC 9000 §2.1 reference, on two back ends independently (Kani in place, Verus on extracted text).",
        "note": "Only the algebra is decided. Not decided: that the driver refuses foreign-session streams with BufferedStreamRejected and drops foreign datagrams (async over quinn). Trusted: compilers, Kani/CBMC, Verus/z3, spec transcription, extraction rewrites R1-R6.",
        "explanation": "Identifier algebra only: every function of ids.rs under contract on both back ends, for all 2^62 ids.",
        "kani": IDS_KANI,
        "verus": [V("ids", pair=("proto", "p_qstream_session_inverse_real"))],
        "not_decided": ["Driver::accept_uni/accept_bi/receive_datagram filtering of foreign sessions and the BufferedStreamRejected stop code (async over quinn)"],
    },
    "C11": {
        "level": "proof",
        "claim": "wip",
        "note": "wip",
        "kani": QPACK_INT_KANI[:5],
        "verus": [],
    },
    "C13": {
        "level": "proof",
        "claim": "wip",
        "note": "wip",
        "kani": FRAME_KANI + [FRAME_READ_20],
        "verus": [],
    },
}


def assumption_scan():
    """Mechanical scan for every construct that is an assumption rather than a proof."""
    counts = {}
    pats = ["kani::assume", "kani::stub(", "stub_verified", "external_body", "assume_specification", "admit()",
            "assume(", "external_fn_specification", "external_type_specification"]
    files = glob.glob(os.path.join(HERE, "kani", "**", "*.rs"), recursive=True) + \
        glob.glob(os.path.join(HERE, "verus", "**", "*.tpl"), recursive=True)
    for f in files:
        t = open(f).read()
        for p in pats:
            c = t.count(p)
            if c:
                counts.setdefault(p, {})[os.path.relpath(f, HERE)] = c
    return counts


def setup():
    """Pre-builds (offline) the cargo-kani dependency graphs and smoke-runs verus."""
    import sys
    sys.path.insert(0, os.path.join(HERE, "lib"))
    import kani
    import verus
    kani.ensure_playback_files()
    rc = 0
    res, wall, out = kani.run("proto", ["c_varint_size"], jobs=4, timeout=1800)
    print("kani proto build+smoke: %s in %.0fs" % (res["c_varint_size"]["status"], wall))
    if res["c_varint_size"]["status"] != "ok":
        print(out[-3000:])
        rc = 1
    if any(h.get("crate") == "driver" for cfg in PROPS.values() for h in cfg.get("kani", [])):
        names = [h["harness"] for cfg in PROPS.values() for h in cfg.get("kani", []) if h.get("crate") == "driver"][:1]
        res, wall, out = kani.run("driver", names, jobs=4, timeout=2400)
        print("kani driver build+smoke: %s in %.0fs" % (res[names[0]]["status"], wall))
        if res[names[0]]["status"] != "ok":
            print(out[-3000:])
            rc = 1
    r = verus.run_unit("ids", with_canary=False)
    print("verus smoke:", r["status"], r.get("reason", ""))
    if r["status"] != "ok":
        rc = 1
    return rc


NOT_APPLICABLE = {
    "C02": "end-to-end observable of Endpoint::connect <-> SessionRequest::accept over a live QUIC connection (async/tokio/quinn); no per-function contract in reach expresses 'the server application sees ...'. Its sans-IO stages are decided under C14, C16, C18.",
    "C05": "property of tokio::select! schedules in Worker::run_impl over concrete quinn streams; Kani has no async runtime/threads and quinn streams cannot be constructed without a connection. The leaf futures it rests on are under contract in C15.",
    "C07": "liveness/independence over task interleavings (stalled streams never block others): whole-history concurrency property, outside contract-based deductive verification (no Kani threads, Verus would need permission types on tokio internals).",
    "C08": "exactly-once delivery over mpsc queues, cancellation and multi-task accept: whole-history concurrency property, no per-call contract expresses it.",
    "C09": "prompt, total termination over all pending futures: liveness + concurrency over tokio/quinn, not a per-call contract.",
    "C10": "verify_server_cert is x509-parser + sha2 + time on DER input inside a rustls trait method; neither verifier can execute those symbolically and extracting the conjunction would be a hand-written model.",
    "C19": "rcgen/x509/PEM file I/O and format!/split/parse string processing: Verus has no str byte reasoning and format! on 32 symbolic bytes is beyond CBMC.",
    "C20": "decided only by binding sockets and inspecting negotiated connections (quinn/rustls configuration objects); no contract within reach.",
}


def manifest():
    checks = []
    for pid in sorted(PROPS):
        cfg = PROPS[pid]
        checks.append({
            "property_id": pid,
            "quick_cmd": "./check %s --tier quick" % pid,
            "thorough_cmd": "./check %s --tier thorough" % pid,
            "evidence_file": "/verif/evidence/%s.json" % pid,
            "replay_cmd_template": "./check --replay {path}",
            "engine": "kani-inplace+verus-extract",
            "level_claimed": {"category": cfg.get("level", "proof"), "text": cfg["claim"], "design_ref": cfg.get("design_ref", "DESIGN.md §3 " + pid)},
            "level_note": cfg["note"],
            "technique": cfg.get("technique", "contract-based deductive verification: Kani function contracts / full-domain loop-free harnesses on the real crate + Verus contracts on mechanically extracted functions"),
        })
    na = [{"property_id": k, "reason": v} for k, v in sorted(NOT_APPLICABLE.items()) if k not in PROPS]
    return {
        "version": 1,
        "setup_cmd": "./check --setup",
        "hooks": {
            "guard": "cfg(kani)",
            "enable": "cargo kani sets --cfg kani; the hook `#[cfg(kani)] #[path=\"/verif/kani/<crate>/mod.rs\"] mod verif_kani;` and the `#[cfg_attr(kani, kani::requires/ensures(..))]` contracts are compiled only then",
            "baseline_off_cmd": "cd /repo && cargo nextest run --workspace --no-fail-fast --offline || (cd /repo && cargo test --workspace --no-fail-fast --offline)",
            "source_commits": HOOK_COMMITS,
            "add_only": True,
        },
        "engines": [
            {"name": "kani-inplace", "path": "/verif/kani", "serves_properties": sorted(PROPS), "kind_free_text": "Kani 0.68/CBMC: contracts attached in place on the real crates under cfg(kani); proof_for_contract, stub_verified, full-domain loop-free harnesses; concrete playback replays counterexamples natively"},
            {"name": "verus-extract", "path": "/verif/verus", "serves_properties": sorted(p for p in PROPS if PROPS[p].get("verus")), "kind_free_text": "Verus 0.2026.09.13/z3 on functions extracted mechanically from /repo on every run (lib/verus.py, rewrites R1-R8 listed in evidence) with contract overlays from verus/units/*.rs.tpl"},
        ],
        "checks": checks,
        "not_applicable": na,
        "notes": "Single technique family: contract-based deductive verification of the real code. Exit 2 (UNDECIDED lines) means a tool limit or lost extraction anchor, never an alarm. known_findings.json lists genuine defects (fixed or known).",
    }
