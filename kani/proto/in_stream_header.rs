//! Harnesses compiled inside `crate::stream_header`.
#![cfg(not(verif_skip_in_stream_header))] // lets the check driver drop this harness module if it no longer compiles against changed code
#![allow(dead_code, unused_imports, missing_docs)]
use super::*;
use crate::verif_kani::contracts::{ref_stream_header, stream_kind_code, stream_kind_valid, RefHeader};
use crate::verif_kani::spec;

/// The crate's GREASE test IS the RFC 9114 predicate 0x1f * N + 0x21, for all 2^62 ids. (Kept as a
/// plain harness, not an in-place contract: Kani cannot `stub` a function that carries one, and the
/// other harnesses replace this function by the uninterpreted oracle, see oracle.rs.)
#[kani::proof]
pub fn c_streamkind_is_id_exercise() {
    let id: VarInt = kani::any();
    let r = StreamKind::is_id_exercise(id);
    assert!(r == spec::is_grease(id.into_inner()));
    kani::cover!(r);
    kani::cover!(!r);
}

/// Contract of `StreamKind::parse` (exact arithmetic, all 2^62 ids): the four registered types, GREASE
/// kept with its id, anything else unknown. Plain harness rather than an in-place attribute because
/// Kani also enforces in-place contracts inside every other harness, which is incompatible with the
/// uninterpreted GREASE oracle those use.
#[kani::proof]
pub fn c_streamkind_parse() {
    let id: VarInt = kani::any();
    let r = StreamKind::parse(id);
    assert!(crate::verif_kani::contracts::stream_kind_parse_post_exact(id.into_inner(), &r));
    kani::cover!(r.is_none());
    kani::cover!(matches!(r, Some(StreamKind::Exercise(_))));
    kani::cover!(matches!(r, Some(StreamKind::WebTransport)));
}

/// Contract of `StreamKind::id`: the registry value whose parse is this kind.
#[kani::proof]
pub fn c_streamkind_id() {
    let k: StreamKind = kani::any();
    let r = k.id();
    assert!(crate::verif_kani::contracts::stream_kind_parse_post_exact(r.into_inner(), &Some(k)));
}

#[kani::proof]
#[kani::stub(StreamKind::is_id_exercise, crate::verif_kani::oracle::grease_varint)]
pub fn p_streamkind_id_parse_inverse() {
    crate::verif_kani::oracle::enable();
    let k: StreamKind = crate::verif_kani::arb::any_stream_kind_g();
    let back = StreamKind::parse(k.id());
    assert!(back.is_some());
    assert!(stream_kind_code(&back.unwrap()) == stream_kind_code(&k));
    assert!(core::mem::discriminant(&back.unwrap()) == core::mem::discriminant(&k));
    assert!(stream_type_ids::CONTROL_STREAM.into_inner() == 0x00);
    assert!(stream_type_ids::QPACK_ENCODER_STREAM.into_inner() == 0x02);
    assert!(stream_type_ids::QPACK_DECODER_STREAM.into_inner() == 0x03);
    assert!(stream_type_ids::WEBTRANSPORT_STREAM.into_inner() == 0x54);
    assert!(StreamHeader::MAX_SIZE == 16);
}

fn same_header(exp: &RefHeader, h: &StreamHeader) {
    match *exp {
        RefHeader::Header { kind, session, .. } => {
            assert!(stream_kind_valid(&h.kind()));
            assert!(stream_kind_code(&h.kind()) == kind);
            match (session, h.session_id()) {
                (Some(s), Some(hs)) => {
                    assert!(hs.into_u64() == s);
                    assert!(s % 4 == 0);
                }
                (None, None) => {}
                _ => panic!("session id presence differs from the reference"),
            }
        }
        _ => panic!("decoder returned a header where the reference does not"),
    }
}

/// For EVERY byte string of length <= 17 (one more than the maximal header): one-shot and
/// buffered stream-header decoders return exactly what the reference prescribes, consume exactly
/// the header (never a following application byte), and the buffered offset moves only on success.
#[kani::proof]
#[kani::unwind(10)]
#[kani::stub(StreamKind::is_id_exercise, crate::verif_kani::oracle::grease_varint)]
pub fn p_stream_header_read_matches_reference() {
    crate::verif_kani::oracle::enable();
    let buf: [u8; 17] = kani::any();
    let len: usize = kani::any();
    kani::assume(len <= 17);
    let exp = ref_stream_header(&buf, len);

    let mut s: &[u8] = &buf[..len];
    let got = StreamHeader::read(&mut s);
    let consumed = len - s.len();
    match (&exp, &got) {
        (RefHeader::NeedMore, Ok(None)) => {}
        (RefHeader::Unknown, Err(ParseError::UnknownStream)) => {}
        (RefHeader::InvalidSessionId, Err(ParseError::InvalidSessionId)) => {}
        (RefHeader::Header { consumed: c, .. }, Ok(Some(h))) => {
            same_header(&exp, h);
            assert!(consumed == *c);
            assert!(*c <= StreamHeader::MAX_SIZE);
        }
        _ => panic!("StreamHeader::read disagrees with the reference parser"),
    }

    let mut br = BufferReader::new(&buf[..len]);
    let got2 = StreamHeader::read_from_buffer(&mut br);
    match (&exp, &got2) {
        (RefHeader::NeedMore, Ok(None)) => { assert!(br.offset() == 0); }
        (RefHeader::Unknown, Err(ParseError::UnknownStream)) => { assert!(br.offset() == 0); }
        (RefHeader::InvalidSessionId, Err(ParseError::InvalidSessionId)) => { assert!(br.offset() == 0); }
        (RefHeader::Header { consumed: c, .. }, Ok(Some(h))) => {
            same_header(&exp, h);
            assert!(br.offset() == *c);
        }
        _ => panic!("StreamHeader::read_from_buffer disagrees with the reference parser"),
    }
    kani::cover!(matches!(exp, RefHeader::NeedMore) && len > 1);
    kani::cover!(matches!(exp, RefHeader::Unknown));
    kani::cover!(matches!(exp, RefHeader::InvalidSessionId));
    kani::cover!(matches!(exp, RefHeader::Header { session: Some(_), consumed: 10, .. }));
    kani::cover!(matches!(exp, RefHeader::Header { session: None, .. }));
}

fn any_header() -> StreamHeader {
    let k: StreamKind = crate::verif_kani::arb::any_stream_kind_g();
    match k {
        StreamKind::WebTransport => StreamHeader::new_webtransport(kani::any()),
        StreamKind::Control => StreamHeader::new_control(),
        other => StreamHeader::new(other, None),
    }
}

/// For every header (all kinds, all session ids) and every capacity: `write_size` exact,
/// `write_to_buffer` all-or-nothing with exactly the RFC bytes, decode(encode(h)) == h.
#[kani::proof]
#[kani::unwind(10)]
#[kani::stub(StreamKind::is_id_exercise, crate::verif_kani::oracle::grease_varint)]
pub fn p_stream_header_write_roundtrip() {
    crate::verif_kani::oracle::enable();
    let h = any_header();
    let kind = stream_kind_code(&h.kind());
    let session = h.session_id().map(|s| s.into_u64());
    let expect = spec::varint_len(kind) + session.map_or(0, spec::varint_len);
    assert!(h.write_size() == expect);
    assert!(expect <= StreamHeader::MAX_SIZE);

    let cap: usize = kani::any();
    kani::assume(cap <= 18);
    let init: [u8; 18] = kani::any();
    let mut out = init;
    let (res, off) = {
        let mut w = BufferWriter::new(&mut out[..cap]);
        let r = h.write_to_buffer(&mut w);
        (r, w.offset())
    };
    assert!(res.is_ok() == (cap >= expect));
    assert!(off == if res.is_ok() { expect } else { 0 });
    let i: usize = kani::any();
    kani::assume(i < 18);
    let n1 = spec::varint_len(kind);
    if res.is_ok() && i < expect {
        if i < n1 {
            assert!(out[i] == spec::varint_byte(kind, i));
        } else {
            assert!(out[i] == spec::varint_byte(session.unwrap(), i - n1));
        }
    } else {
        assert!(out[i] == init[i]);
    }
    if res.is_ok() {
        let mut s: &[u8] = &out[..cap];
        match StreamHeader::read(&mut s) {
            Ok(Some(back)) => {
                assert!(stream_kind_code(&back.kind()) == kind);
                assert!(back.session_id().map(|s| s.into_u64()) == session);
                assert!(cap - s.len() == expect);
            }
            _ => panic!("decoding an encoded stream header did not yield a header"),
        }
    }
    // plain write: Err iff too small
    let cap2: usize = kani::any();
    kani::assume(cap2 <= 18);
    let mut out2: [u8; 18] = kani::any();
    let mut w2 = BufferWriter::new(&mut out2[..cap2]);
    assert!(h.write(&mut w2).is_ok() == (cap2 >= expect));
    kani::cover!(res.is_ok() && expect == 10);
    kani::cover!(res.is_err());
}

// ---- async encoder (C01, C14, C16): byte-exactness of `StreamHeader::write_async` -----------------------

/// Destination that is always ready and takes everything it is offered (every chunking / Pending
/// pattern of the two leaf futures is covered by `p_put_varint_poll_step`).
#[cfg(feature = "async")]
pub struct ReadySink {
    pub data: [u8; 24],
    pub pos: usize,
}

#[cfg(feature = "async")]
impl crate::bytes::AsyncWrite for ReadySink {
    fn poll_write(
        self: std::pin::Pin<&mut Self>,
        _cx: &mut std::task::Context<'_>,
        buf: &[u8],
    ) -> std::task::Poll<std::io::Result<usize>> {
        let this = self.get_mut();
        let mut i = 0;
        while i < 8 {
            if i < buf.len() && this.pos + i < 24 {
                this.data[this.pos + i] = buf[i];
            }
            i += 1;
        }
        this.pos += buf.len();
        std::task::Poll::Ready(Ok(buf.len()))
    }
}

/// For every header (all kinds, all session ids) the ASYNC encoder emits exactly the RFC bytes
/// `varint(kind) || varint(session id)` - the same bytes as the sans-IO encoder - and nothing else.
#[cfg(feature = "async")]
#[kani::proof]
#[kani::unwind(10)]
#[kani::stub(StreamKind::is_id_exercise, crate::verif_kani::oracle::grease_varint)]
pub fn p_stream_header_write_async_exact() {
    use std::future::Future;
    crate::verif_kani::oracle::enable();
    let h = any_header();
    let kind = stream_kind_code(&h.kind());
    let session = h.session_id().map(|s| s.into_u64());
    let n1 = spec::varint_len(kind);
    let expect = n1 + session.map_or(0, spec::varint_len);
    let mut sink = ReadySink { data: [0; 24], pos: 0 };
    let ready = {
        let fut = h.write_async(&mut sink);
        let mut fut = std::pin::pin!(fut);
        let waker = std::task::Waker::noop();
        let mut cx = std::task::Context::from_waker(waker);
        matches!(fut.as_mut().poll(&mut cx), std::task::Poll::Ready(Ok(())))
    };
    assert!(ready);
    assert!(sink.pos == expect);
    let i: usize = kani::any();
    kani::assume(i < 24);
    if i < n1 {
        assert!(sink.data[i] == spec::varint_byte(kind, i));
    } else if i < expect {
        assert!(sink.data[i] == spec::varint_byte(session.unwrap(), i - n1));
    } else {
        assert!(sink.data[i] == 0);
    }
    kani::cover!(session.is_some() && expect == 10);
}
