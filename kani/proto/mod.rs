//! Verification module compiled INTO wtransport-proto under `cfg(kani)` (hook:
//! `#[cfg(kani)] #[path = "/verif/kani/proto/mod.rs"] mod verif_kani;` in src/lib.rs).
//! Lives in /verif; sees the crate's private items because it is a child module of the crate root.
#![allow(dead_code, unused_imports, missing_docs, clippy::all)]

pub mod spec;
pub mod contracts;
pub mod oracle;
pub mod arb;
pub mod util;

pub mod h_varint;
pub mod h_ids;
pub mod h_misc;

/// Counterexample replay: `cargo kani playback` compiles the crate with cfg(kani) + cfg(test);
/// the check driver writes the solver's concrete values (the unit test printed by
/// `--concrete-playback=print`) into this file before running it.
#[cfg(test)]
mod playback {
    use super::h_ids::*;
    use super::h_varint::*;
    use super::h_misc::*;
    use crate::frame::verif_kani::*;
    use crate::qpack::verif_kani::*;
    use crate::stream_header::verif_kani::*;
    use crate::stream::verif_kani::*;
    use crate::settings::verif_kani::*;
    use crate::capsule::verif_kani::*;
    use crate::datagram::verif_kani::*;
    use crate::headers::verif_kani::*;
    use crate::session::verif_kani::*;
    use crate::bytes::r#async::verif_kani::*;
    include!("/verif/.build/playback/current.rs");
}
