//! Verification module compiled INTO wtransport-proto under `cfg(kani)` (hook:
//! `#[cfg(kani)] #[path = "/verif/kani/proto/mod.rs"] mod verif_kani;` in src/lib.rs).
//! Lives in /verif; sees the crate's private items because it is a child module of the crate root.
#![allow(dead_code, unused_imports, missing_docs, clippy::all)]

pub mod spec;
pub mod contracts;
pub mod oracle;
pub mod arb;
pub mod util;

pub mod h_varint;
pub mod h_ids;
pub mod h_misc;

/// Counterexample replay: `cargo kani playback` compiles the crate with cfg(kani) + cfg(test);
/// the check driver writes the solver's concrete values (the unit test printed by
/// `--concrete-playback=print`) into this file before running it.
#[cfg(test)]
mod playback {
    #[cfg(not(verif_skip_h_ids))]
    use super::h_ids::*;
    #[cfg(not(verif_skip_h_misc))]
    use super::h_misc::*;
    #[cfg(not(verif_skip_h_varint))]
    use super::h_varint::*;
    #[cfg(not(verif_skip_in_bytes_async))]
    use crate::bytes::r#async::verif_kani::*;
    #[cfg(not(verif_skip_in_capsule))]
    use crate::capsule::verif_kani::*;
    #[cfg(not(verif_skip_in_datagram))]
    use crate::datagram::verif_kani::*;
    #[cfg(not(verif_skip_in_frame))]
    use crate::frame::verif_kani::*;
    #[cfg(not(verif_skip_in_headers))]
    use crate::headers::verif_kani::*;
    #[cfg(not(verif_skip_in_qpack))]
    use crate::qpack::verif_kani::*;
    #[cfg(not(verif_skip_in_session))]
    use crate::session::verif_kani::*;
    #[cfg(not(verif_skip_in_settings))]
    use crate::settings::verif_kani::*;
    #[cfg(not(verif_skip_in_stream))]
    use crate::stream::verif_kani::*;
    #[cfg(not(verif_skip_in_stream_header))]
    use crate::stream_header::verif_kani::*;
    include!("/verif/.build/playback/current.rs");
}
