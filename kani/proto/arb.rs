//! `kani::Arbitrary` for the crate's newtypes, carrying each type's invariant
//! (needed both for symbolic inputs and for `stub_verified` havocked results).
use crate::ids::{QStreamId, SessionId, StatusCode, StreamId};
use crate::varint::VarInt;

use super::spec;

impl kani::Arbitrary for VarInt {
    fn any() -> Self {
        let v: u64 = kani::any();
        kani::assume(v <= spec::VARINT_MAX);
        // SAFETY: v <= 2^62-1 assumed above (constructor without a contract, so that
        // try_from_u64 can itself be used as a verified stub)
        unsafe { VarInt::from_u64_unchecked(v) }
    }
}

impl kani::Arbitrary for StreamId {
    fn any() -> Self {
        StreamId::new(kani::any())
    }
}

impl kani::Arbitrary for SessionId {
    fn any() -> Self {
        let v: u64 = kani::any();
        kani::assume(v <= spec::VARINT_MAX && v % 4 == 0);
        // SAFETY: v % 4 == 0 assumed above
        unsafe { SessionId::from_session_stream_unchecked(StreamId::new(VarInt::from_u64_unchecked(v))) }
    }
}

impl kani::Arbitrary for QStreamId {
    fn any() -> Self {
        let v: u64 = kani::any();
        kani::assume(v <= spec::QSTREAM_MAX);
        QStreamId::verif_from_varint_unchecked(unsafe { VarInt::from_u64_unchecked(v) })
    }
}

impl kani::Arbitrary for StatusCode {
    fn any() -> Self {
        let v: u16 = kani::any();
        kani::assume((100..=599).contains(&v));
        StatusCode::try_from(v).unwrap()
    }
}

/// Any `u64` below 2^62 as a VarInt.
pub fn any_varint() -> VarInt {
    kani::any()
}

/// A VarInt whose construction bypasses nothing: built from a raw u64 with the invariant assumed.
pub fn varint(v: u64) -> VarInt {
    VarInt::try_from_u64(v).unwrap()
}

impl kani::Arbitrary for crate::ids::InvalidSessionId {
    fn any() -> Self {
        crate::ids::InvalidSessionId
    }
}

impl kani::Arbitrary for crate::ids::InvalidQStreamId {
    fn any() -> Self {
        crate::ids::InvalidQStreamId
    }
}

impl kani::Arbitrary for crate::frame::FrameKind {
    /// Any *valid* kind (an `Exercise` id is a GREASE value).
    fn any() -> Self {
        use crate::frame::FrameKind::*;
        match kani::any::<u8>() % 5 {
            0 => Data,
            1 => Headers,
            2 => Settings,
            3 => WebTransport,
            _ => {
                let v: VarInt = kani::any();
                kani::assume(spec::is_grease(v.into_inner()));
                Exercise(v)
            }
        }
    }
}

impl kani::Arbitrary for crate::stream_header::StreamKind {
    fn any() -> Self {
        use crate::stream_header::StreamKind::*;
        match kani::any::<u8>() % 5 {
            0 => Control,
            1 => QPackEncoder,
            2 => QPackDecoder,
            3 => WebTransport,
            _ => {
                let v: VarInt = kani::any();
                kani::assume(spec::is_grease(v.into_inner()));
                Exercise(v)
            }
        }
    }
}

impl kani::Arbitrary for crate::settings::SettingId {
    fn any() -> Self {
        use crate::settings::SettingId::*;
        match kani::any::<u8>() % 8 {
            0 => QPackMaxTableCapacity,
            1 => MaxFieldSectionSize,
            2 => QPackBlockedStreams,
            3 => EnableConnectProtocol,
            4 => H3Datagram,
            5 => EnableWebTransport,
            6 => WebTransportMaxSessions,
            _ => {
                let v: VarInt = kani::any();
                kani::assume(spec::is_grease(v.into_inner()));
                Exercise(v)
            }
        }
    }
}

impl kani::Arbitrary for crate::error::ErrorCode {
    fn any() -> Self {
        use crate::error::ErrorCode::*;
        match kani::any::<u8>() % 15 {
            0 => Datagram,
            1 => NoError,
            2 => StreamCreation,
            3 => ClosedCriticalStream,
            4 => FrameUnexpected,
            5 => Frame,
            6 => ExcessiveLoad,
            7 => Id,
            8 => Settings,
            9 => MissingSettings,
            10 => RequestRejected,
            11 => Message,
            12 => Decompression,
            13 => BufferedStreamRejected,
            _ => SessionGone,
        }
    }
}

// ---- oracle-mode generators (see oracle.rs): `Exercise` ids satisfy the uninterpreted predicate ----

fn grease_id_g() -> VarInt {
    let v: VarInt = kani::any();
    kani::assume(super::oracle::grease(v.into_inner()));
    v
}

pub fn any_frame_kind_g() -> crate::frame::FrameKind {
    use crate::frame::FrameKind::*;
    match kani::any::<u8>() % 5 {
        0 => Data,
        1 => Headers,
        2 => Settings,
        3 => WebTransport,
        _ => Exercise(grease_id_g()),
    }
}

pub fn any_stream_kind_g() -> crate::stream_header::StreamKind {
    use crate::stream_header::StreamKind::*;
    match kani::any::<u8>() % 5 {
        0 => Control,
        1 => QPackEncoder,
        2 => QPackDecoder,
        3 => WebTransport,
        _ => Exercise(grease_id_g()),
    }
}

pub fn any_setting_id_g() -> crate::settings::SettingId {
    use crate::settings::SettingId::*;
    match kani::any::<u8>() % 8 {
        0 => QPackMaxTableCapacity,
        1 => MaxFieldSectionSize,
        2 => QPackBlockedStreams,
        3 => EnableConnectProtocol,
        4 => H3Datagram,
        5 => EnableWebTransport,
        6 => WebTransportMaxSessions,
        _ => Exercise(grease_id_g()),
    }
}
