//! `kani::Arbitrary` for the crate's newtypes, carrying each type's invariant
//! (needed both for symbolic inputs and for `stub_verified` havocked results).
use crate::ids::{QStreamId, SessionId, StatusCode, StreamId};
use crate::varint::VarInt;

use super::spec;

impl kani::Arbitrary for VarInt {
    fn any() -> Self {
        let v: u64 = kani::any();
        kani::assume(v <= spec::VARINT_MAX);
        // SAFETY: v <= 2^62-1 assumed above (constructor without a contract, so that
        // try_from_u64 can itself be used as a verified stub)
        unsafe { VarInt::from_u64_unchecked(v) }
    }
}

impl kani::Arbitrary for StreamId {
    fn any() -> Self {
        StreamId::new(kani::any())
    }
}

impl kani::Arbitrary for SessionId {
    fn any() -> Self {
        let v: u64 = kani::any();
        kani::assume(v <= spec::VARINT_MAX && v % 4 == 0);
        // SAFETY: v % 4 == 0 assumed above
        unsafe { SessionId::from_session_stream_unchecked(StreamId::new(VarInt::from_u64_unchecked(v))) }
    }
}

impl kani::Arbitrary for QStreamId {
    fn any() -> Self {
        let v: u64 = kani::any();
        kani::assume(v <= spec::QSTREAM_MAX);
        QStreamId::verif_from_varint_unchecked(unsafe { VarInt::from_u64_unchecked(v) })
    }
}

impl kani::Arbitrary for StatusCode {
    fn any() -> Self {
        let v: u16 = kani::any();
        kani::assume((100..=599).contains(&v));
        StatusCode::try_from(v).unwrap()
    }
}

/// Any `u64` below 2^62 as a VarInt.
pub fn any_varint() -> VarInt {
    kani::any()
}

/// A VarInt whose construction bypasses nothing: built from a raw u64 with the invariant assumed.
pub fn varint(v: u64) -> VarInt {
    VarInt::try_from_u64(v).unwrap()
}

impl kani::Arbitrary for crate::ids::InvalidSessionId {
    fn any() -> Self {
        crate::ids::InvalidSessionId
    }
}

impl kani::Arbitrary for crate::ids::InvalidQStreamId {
    fn any() -> Self {
        crate::ids::InvalidQStreamId
    }
}
