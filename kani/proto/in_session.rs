//! Harnesses compiled inside `crate::session` (C18). `SessionRequest`/`Headers` are
//! `HashMap<String, String>` wrappers: symbolic strings are out of CBMC's reach, so these harnesses
//! use CONCRETE field names (bounded stand-ins, never counted as proved); the admission predicate
//! for ALL header maps is the Verus unit `session`.
#![cfg(not(verif_skip_in_session))] // lets the check driver drop this harness module if it no longer compiles against changed code
#![allow(dead_code, unused_imports, missing_docs)]
use super::*;

fn str_eq(a: &str, b: &str) -> bool {
    let (a, b) = (a.as_bytes(), b.as_bytes());
    if a.len() != b.len() {
        return false;
    }
    let mut i = 0;
    while i < a.len() {
        if a[i] != b[i] {
            return false;
        }
        i += 1;
    }
    true
}

// (A harness driving `SessionRequest::insert` through the real `HashMap<String, String>` does not
// terminate in CBMC even with concrete field names - measured: no answer in 25 minutes.)

/// The reserved list is exactly the five WebTransport pseudo-headers.
#[kani::proof]
#[kani::unwind(20)]
pub fn p_reserved_headers_list() {
    let r = SessionRequest::RESERVED_HEADERS;
    assert!(r.len() == 5);
    assert!(str_eq(r[0], ":method") && str_eq(r[1], ":scheme") && str_eq(r[2], ":protocol"));
    assert!(str_eq(r[3], ":authority") && str_eq(r[4], ":path"));
}
