//! Registry constants (C12, C16).
#![cfg(not(verif_skip_h_misc))] // lets the check driver drop this harness module if it no longer compiles against changed code
use crate::error::ErrorCode;
use super::spec;

/// In-place contract on `ErrorCode::to_code`: every error the endpoint can put on the wire has its
/// IANA / draft registry value (15 entries).
#[kani::proof_for_contract(ErrorCode::to_code)]
pub fn c_error_code_to_code() {
    let e: ErrorCode = kani::any();
    let c = e.to_code();
    kani::cover!(c.into_inner() == spec::error_code::WEBTRANSPORT_BUFFERED_STREAM_REJECTED);
    kani::cover!(c.into_inner() == spec::error_code::H3_NO_ERROR);
}

/// ALPN token (RFC 9114 §3.1).
#[kani::proof]
pub fn p_alpn_is_h3() {
    assert!(crate::WEBTRANSPORT_ALPN[0] == b'h' && crate::WEBTRANSPORT_ALPN[1] == b'3');
    assert!(crate::WEBTRANSPORT_ALPN.len() == 2);
}
