//! Reference definitions transcribed from the specifications (never from the crate's code).
//!
//! RFC 9000 §16 (variable-length integers), §2.1 (stream id classes);
//! RFC 9114 §7.2 / §6.2 / §8.1 / §11.2 (frame types, stream types, error codes, settings);
//! RFC 9204 §6 / Appendix A (QPACK error code, static table); RFC 9297 (H3 datagram, capsule);
//! RFC 9220 (extended CONNECT setting); draft-ietf-webtrans-http3 (0x41, 0x54, 0x2843, settings,
//! error codes); RFC 7541 §5.1 (prefix integers).
//!
//! Everything here is executable Rust used inside Kani pre/postconditions. The Verus mirror of the
//! integer-only definitions is /verif/verus/spec.rs.

#![allow(dead_code)]

pub const VARINT_MAX: u64 = (1u64 << 62) - 1;
pub const QSTREAM_MAX: u64 = (1u64 << 60) - 1;

/// RFC 9000 §16, table 4: shortest encoding length.
pub const fn varint_len(v: u64) -> usize {
    if v < (1 << 6) {
        1
    } else if v < (1 << 14) {
        2
    } else if v < (1 << 30) {
        4
    } else {
        8
    }
}

/// RFC 9000 §16: length announced by the two most significant bits of the first byte.
pub const fn varint_len_from_first(b: u8) -> usize {
    1usize << (b >> 6)
}

/// RFC 9000 §16: byte `i` of the (shortest) encoding of `v`.
pub const fn varint_byte(v: u64, i: usize) -> u8 {
    let n = varint_len(v);
    let tag: u8 = match n {
        1 => 0b00,
        2 => 0b01,
        4 => 0b10,
        _ => 0b11,
    };
    let shift = 8 * (n - 1 - i);
    let raw = ((v >> shift) & 0xff) as u8;
    if i == 0 {
        raw | (tag << 6)
    } else {
        raw
    }
}

/// RFC 9000 §16: value of an encoding of announced length `n` (1, 2, 4 or 8) held in `b[..n]`:
/// the first byte without its two length bits, then the remaining bytes, network byte order.
/// (Written without a loop so that harnesses can use small unwinding bounds.)
pub fn varint_value(b: &[u8], n: usize) -> u64 {
    let b0 = (b[0] & 0x3f) as u64;
    if n == 1 {
        b0
    } else if n == 2 {
        (b0 << 8) | b[1] as u64
    } else if n == 4 {
        (b0 << 24) | (b[1] as u64) << 16 | (b[2] as u64) << 8 | b[3] as u64
    } else {
        (b0 << 56)
            | (b[1] as u64) << 48
            | (b[2] as u64) << 40
            | (b[3] as u64) << 32
            | (b[4] as u64) << 24
            | (b[5] as u64) << 16
            | (b[6] as u64) << 8
            | b[7] as u64
    }
}

/// Writes the reference encoding into `out`, returns the length.
pub fn varint_encode(v: u64, out: &mut [u8; 8]) -> usize {
    let n = varint_len(v);
    let mut i = 0;
    while i < n {
        out[i] = varint_byte(v, i);
        i += 1;
    }
    n
}

/// RFC 9000 §2.1.
pub const fn stream_is_client_initiated(id: u64) -> bool {
    id % 4 == 0 || id % 4 == 2
}
pub const fn stream_is_bidirectional(id: u64) -> bool {
    id % 4 == 0 || id % 4 == 1
}

/// RFC 9114 §7.2.8 / §6.2.3 / §7.2.4.1: reserved "GREASE" identifiers 0x1f * N + 0x21.
pub const fn is_grease(id: u64) -> bool {
    id >= 0x21 && (id - 0x21) % 0x1f == 0
}

pub mod frame_type {
    pub const DATA: u64 = 0x00;
    pub const HEADERS: u64 = 0x01;
    pub const SETTINGS: u64 = 0x04;
    /// draft-ietf-webtrans-http3: WEBTRANSPORT_STREAM signal value.
    pub const WT_STREAM: u64 = 0x41;
}

pub mod stream_type {
    pub const CONTROL: u64 = 0x00;
    pub const QPACK_ENCODER: u64 = 0x02;
    pub const QPACK_DECODER: u64 = 0x03;
    /// draft-ietf-webtrans-http3: unidirectional WebTransport stream type.
    pub const WT_UNI: u64 = 0x54;
}

pub mod setting {
    pub const QPACK_MAX_TABLE_CAPACITY: u64 = 0x01;
    pub const MAX_FIELD_SECTION_SIZE: u64 = 0x06;
    pub const QPACK_BLOCKED_STREAMS: u64 = 0x07;
    pub const ENABLE_CONNECT_PROTOCOL: u64 = 0x08;
    pub const H3_DATAGRAM: u64 = 0x33;
    pub const ENABLE_WEBTRANSPORT: u64 = 0x2b60_3742;
    pub const WEBTRANSPORT_MAX_SESSIONS: u64 = 0xc671_706a;
    /// RFC 9114 §7.2.4.1: HTTP/2 settings reserved in HTTP/3.
    pub const fn is_reserved(id: u64) -> bool {
        id == 0x00 || id == 0x02 || id == 0x03 || id == 0x04 || id == 0x05
    }
}

pub mod error_code {
    pub const H3_DATAGRAM_ERROR: u64 = 0x33;
    pub const H3_NO_ERROR: u64 = 0x0100;
    pub const H3_STREAM_CREATION_ERROR: u64 = 0x0103;
    pub const H3_CLOSED_CRITICAL_STREAM: u64 = 0x0104;
    pub const H3_FRAME_UNEXPECTED: u64 = 0x0105;
    pub const H3_FRAME_ERROR: u64 = 0x0106;
    pub const H3_EXCESSIVE_LOAD: u64 = 0x0107;
    pub const H3_ID_ERROR: u64 = 0x0108;
    pub const H3_SETTINGS_ERROR: u64 = 0x0109;
    pub const H3_MISSING_SETTINGS: u64 = 0x010a;
    pub const H3_REQUEST_REJECTED: u64 = 0x010b;
    pub const H3_MESSAGE_ERROR: u64 = 0x010e;
    pub const QPACK_DECOMPRESSION_FAILED: u64 = 0x0200;
    pub const WEBTRANSPORT_BUFFERED_STREAM_REJECTED: u64 = 0x3994_bd84;
    pub const WEBTRANSPORT_SESSION_GONE: u64 = 0x170d_7b68;
}

/// draft-ietf-webtrans-http3: CLOSE_WEBTRANSPORT_SESSION capsule type.
pub const CAPSULE_CLOSE_WT_SESSION: u64 = 0x2843;
/// draft-ietf-webtrans-http3: maximum length of the close reason.
pub const CLOSE_REASON_MAX: usize = 1024;

/// The endpoint's documented parse limit for frame payloads.
pub const MAX_PARSE_PAYLOAD: usize = 4096;

/// RFC 7541 §5.1 prefix integer: number of octets of the encoding of `v` with an `n`-bit prefix.
pub fn prefix_int_len(n: u32, v: u128) -> usize {
    let mask: u128 = (1u128 << n) - 1;
    if v < mask {
        return 1;
    }
    let mut rem = v - mask;
    let mut len = 2;
    while rem >= 128 {
        rem >>= 7;
        len += 1;
    }
    len
}

/// RFC 7541 §5.1: octet `i` (i ≥ 1) of the continuation of `v` with an `n`-bit prefix.
pub fn prefix_int_cont_byte(n: u32, v: u128, i: usize) -> u8 {
    let mask: u128 = (1u128 << n) - 1;
    let rem = v - mask;
    let shifted = rem >> (7 * (i - 1));
    let low = (shifted & 0x7f) as u8;
    if shifted >= 128 {
        low | 0x80
    } else {
        low
    }
}

/// RFC 9204 Appendix A — static table (index, name, value).
pub const QPACK_STATIC: [(&str, &str); 99] = [
    (":authority", ""),
    (":path", "/"),
    ("age", "0"),
    ("content-disposition", ""),
    ("content-length", "0"),
    ("cookie", ""),
    ("date", ""),
    ("etag", ""),
    ("if-modified-since", ""),
    ("if-none-match", ""),
    ("last-modified", ""),
    ("link", ""),
    ("location", ""),
    ("referer", ""),
    ("set-cookie", ""),
    (":method", "CONNECT"),
    (":method", "DELETE"),
    (":method", "GET"),
    (":method", "HEAD"),
    (":method", "OPTIONS"),
    (":method", "POST"),
    (":method", "PUT"),
    (":scheme", "http"),
    (":scheme", "https"),
    (":status", "103"),
    (":status", "200"),
    (":status", "304"),
    (":status", "404"),
    (":status", "503"),
    ("accept", "*/*"),
    ("accept", "application/dns-message"),
    ("accept-encoding", "gzip, deflate, br"),
    ("accept-ranges", "bytes"),
    ("access-control-allow-headers", "cache-control"),
    ("access-control-allow-headers", "content-type"),
    ("access-control-allow-origin", "*"),
    ("cache-control", "max-age=0"),
    ("cache-control", "max-age=2592000"),
    ("cache-control", "max-age=604800"),
    ("cache-control", "no-cache"),
    ("cache-control", "no-store"),
    ("cache-control", "public, max-age=31536000"),
    ("content-encoding", "br"),
    ("content-encoding", "gzip"),
    ("content-type", "application/dns-message"),
    ("content-type", "application/javascript"),
    ("content-type", "application/json"),
    ("content-type", "application/x-www-form-urlencoded"),
    ("content-type", "image/gif"),
    ("content-type", "image/jpeg"),
    ("content-type", "image/png"),
    ("content-type", "text/css"),
    ("content-type", "text/html; charset=utf-8"),
    ("content-type", "text/plain"),
    ("content-type", "text/plain;charset=utf-8"),
    ("range", "bytes=0-"),
    ("strict-transport-security", "max-age=31536000"),
    ("strict-transport-security", "max-age=31536000; includesubdomains"),
    ("strict-transport-security", "max-age=31536000; includesubdomains; preload"),
    ("vary", "accept-encoding"),
    ("vary", "origin"),
    ("x-content-type-options", "nosniff"),
    ("x-xss-protection", "1; mode=block"),
    (":status", "100"),
    (":status", "204"),
    (":status", "206"),
    (":status", "302"),
    (":status", "400"),
    (":status", "403"),
    (":status", "421"),
    (":status", "425"),
    (":status", "500"),
    ("accept-language", ""),
    ("access-control-allow-credentials", "FALSE"),
    ("access-control-allow-credentials", "TRUE"),
    ("access-control-allow-headers", "*"),
    ("access-control-allow-methods", "get"),
    ("access-control-allow-methods", "get, post, options"),
    ("access-control-allow-methods", "options"),
    ("access-control-expose-headers", "content-length"),
    ("access-control-request-headers", "content-type"),
    ("access-control-request-method", "get"),
    ("access-control-request-method", "post"),
    ("alt-svc", "clear"),
    ("authorization", ""),
    ("content-security-policy", "script-src 'none'; object-src 'none'; base-uri 'none'"),
    ("early-data", "1"),
    ("expect-ct", ""),
    ("forwarded", ""),
    ("if-range", ""),
    ("origin", ""),
    ("purpose", "prefetch"),
    ("server", ""),
    ("timing-allow-origin", "*"),
    ("upgrade-insecure-requests", "1"),
    ("user-agent", ""),
    ("x-forwarded-for", ""),
    ("x-frame-options", "deny"),
    ("x-frame-options", "sameorigin"),
];
