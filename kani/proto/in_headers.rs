//! placeholder

#![cfg(not(verif_skip_in_headers))] // lets the check driver drop this harness module if it no longer compiles against changed code