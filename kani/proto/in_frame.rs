//! Harnesses compiled inside `crate::frame` (access to `FrameKind::parse/id`, `Frame::new`).
#![cfg(not(verif_skip_in_frame))] // lets the check driver drop this harness module if it no longer compiles against changed code
#![allow(dead_code, unused_imports, missing_docs)]
use super::*;
use crate::verif_kani::contracts::{frame_kind_code, frame_kind_valid, ref_frame, RefFrame};
use crate::verif_kani::spec;

// ---- FrameKind: in-place contracts (complete over all 2^62 ids) --------------------------------

/// The crate's GREASE test IS the RFC 9114 predicate 0x1f * N + 0x21, for all 2^62 ids. (Kept as a
/// plain harness, not an in-place contract: Kani cannot `stub` a function that carries one, and the
/// other harnesses replace this function by the uninterpreted oracle, see oracle.rs.)
#[kani::proof]
pub fn c_framekind_is_id_exercise() {
    let id: VarInt = kani::any();
    let r = FrameKind::is_id_exercise(id);
    assert!(r == spec::is_grease(id.into_inner()));
    kani::cover!(r && id.into_inner() > (1 << 32));
    kani::cover!(!r);
}

/// Contract of `FrameKind::parse` (exact arithmetic, all 2^62 ids): the four registered types, GREASE
/// kept with its id, anything else unknown. Plain harness rather than an in-place attribute because
/// Kani also enforces in-place contracts inside every other harness, which is incompatible with the
/// uninterpreted GREASE oracle those use.
#[kani::proof]
pub fn c_framekind_parse() {
    let id: VarInt = kani::any();
    let r = FrameKind::parse(id);
    assert!(crate::verif_kani::contracts::frame_kind_parse_post_exact(id.into_inner(), &r));
    kani::cover!(r.is_none());
    kani::cover!(matches!(r, Some(FrameKind::Exercise(_))));
    kani::cover!(matches!(r, Some(FrameKind::WebTransport)));
}

/// Contract of `FrameKind::id`: the registry value whose parse is this kind.
#[kani::proof]
pub fn c_framekind_id() {
    let k: FrameKind = kani::any();
    let r = k.id();
    assert!(crate::verif_kani::contracts::frame_kind_parse_post_exact(r.into_inner(), &Some(k)));
}

/// parse ∘ id == identity on valid kinds; the registry values are the RFC ones.
#[kani::proof]
#[kani::stub(FrameKind::is_id_exercise, crate::verif_kani::oracle::grease_varint)]
pub fn p_framekind_id_parse_inverse() {
    crate::verif_kani::oracle::enable();
    let k: FrameKind = crate::verif_kani::arb::any_frame_kind_g();
    let back = FrameKind::parse(k.id());
    assert!(back.is_some());
    assert!(frame_kind_code(&back.unwrap()) == frame_kind_code(&k));
    assert!(core::mem::discriminant(&back.unwrap()) == core::mem::discriminant(&k));
    assert!(frame_kind_ids::DATA.into_inner() == 0x00);
    assert!(frame_kind_ids::HEADERS.into_inner() == 0x01);
    assert!(frame_kind_ids::SETTINGS.into_inner() == 0x04);
    assert!(frame_kind_ids::WEBTRANSPORT_STREAM.into_inner() == 0x41);
    assert!(Frame::MAX_PARSE_PAYLOAD_ALLOWED == spec::MAX_PARSE_PAYLOAD);
}

// ---- Frame::read / read_from_buffer against the reference parser -------------------------------

fn same_frame<const N: usize>(exp: &RefFrame, f: &Frame<'_>, buf: &[u8; N]) {
    match *exp {
        RefFrame::Frame { kind, session, payload_off, payload_len, .. } => {
            assert!(frame_kind_valid(&f.kind()));
            assert!(frame_kind_code(&f.kind()) == kind);
            match (session, f.session_id()) {
                (Some(s), Some(fs)) => {
                    assert!(fs.into_u64() == s);
                    assert!(s % 4 == 0 && s <= spec::VARINT_MAX);
                }
                (None, None) => {}
                _ => panic!("session id presence differs from the reference"),
            }
            assert!(f.payload().len() == payload_len);
            assert!(payload_len <= spec::MAX_PARSE_PAYLOAD);
            if payload_len > 0 {
                // zero-copy: the payload is exactly the declared bytes of the input
                assert!(f.payload().as_ptr() == buf[payload_off..].as_ptr());
            }
        }
        _ => panic!("decoder returned a frame where the reference does not"),
    }
}

/// For EVERY byte string of length <= N: `Frame::read` (one-shot) and `Frame::read_from_buffer`
/// (buffered) both return exactly what the reference parser prescribes - value, need-more-data or
/// error class - consume exactly the frame on success, and the buffered reader's offset moves only
/// on success. No panic/overflow/OOB on any path (Kani checks those implicitly).
fn frame_read_matches_reference<const N: usize>() {
    crate::verif_kani::oracle::enable();
    let buf: [u8; N] = kani::any();
    let len: usize = kani::any();
    kani::assume(len <= N);
    let exp = ref_frame(&buf, 0, len);

    // one-shot
    let mut s: &[u8] = &buf[..len];
    let got = Frame::read(&mut s);
    let consumed = len - s.len();
    match (&exp, &got) {
        (RefFrame::NeedMore, Ok(None)) => {}
        (RefFrame::Unknown { consumed: c }, Err(ParseError::UnknownFrame)) => {
            // C13: the reader is left after the WHOLE unknown frame (type, length, payload)
            assert!(consumed == *c);
        }
        (RefFrame::InvalidSessionId, Err(ParseError::InvalidSessionId)) => {}
        (RefFrame::TooBig, Err(ParseError::PayloadTooBig)) => {}
        (RefFrame::Frame { consumed: c, .. }, Ok(Some(f))) => {
            same_frame(&exp, f, &buf);
            assert!(consumed == *c);
        }
        _ => panic!("Frame::read disagrees with the reference parser"),
    }

    // buffered
    let mut br = BufferReader::new(&buf[..len]);
    let got2 = Frame::read_from_buffer(&mut br);
    match (&exp, &got2) {
        (RefFrame::NeedMore, Ok(None)) => { assert!(br.offset() == 0); }
        (RefFrame::Unknown { .. }, Err(ParseError::UnknownFrame)) => { assert!(br.offset() == 0); }
        (RefFrame::InvalidSessionId, Err(ParseError::InvalidSessionId)) => { assert!(br.offset() == 0); }
        (RefFrame::TooBig, Err(ParseError::PayloadTooBig)) => { assert!(br.offset() == 0); }
        (RefFrame::Frame { consumed: c, .. }, Ok(Some(f))) => {
            same_frame(&exp, f, &buf);
            assert!(br.offset() == *c);
        }
        _ => panic!("Frame::read_from_buffer disagrees with the reference parser"),
    }

    kani::cover!(matches!(exp, RefFrame::NeedMore) && len > 2);
    kani::cover!(matches!(exp, RefFrame::Unknown { .. }));
    kani::cover!(matches!(exp, RefFrame::InvalidSessionId));
    kani::cover!(matches!(exp, RefFrame::TooBig));
    kani::cover!(matches!(exp, RefFrame::Frame { session: Some(_), .. }));
    kani::cover!(matches!(exp, RefFrame::Frame { session: None, payload_len: 3, .. }));
}

#[kani::proof]
#[kani::unwind(10)]
#[kani::stub(FrameKind::is_id_exercise, crate::verif_kani::oracle::grease_varint)]
pub fn p_frame_read_matches_reference_20() {
    frame_read_matches_reference::<20>();
}

/// Same contract on a buffer large enough to hold a maximal (4096-byte) payload, so the parse
/// limit itself is reachable with a complete frame.
#[kani::proof]
#[kani::unwind(10)]
#[kani::stub(FrameKind::is_id_exercise, crate::verif_kani::oracle::grease_varint)]
pub fn p_frame_read_matches_reference_4200() {
    frame_read_matches_reference::<4200>();
}

// ---- Frame::write / write_to_buffer / write_size ------------------------------------------------

fn any_frame<'a>(payload: &'a [u8]) -> Frame<'a> {
    let k: FrameKind = crate::verif_kani::arb::any_frame_kind_g();
    match k {
        FrameKind::Data => Frame::new_data(Cow::Borrowed(payload)),
        FrameKind::Headers => Frame::new_headers(Cow::Borrowed(payload)),
        FrameKind::Settings => Frame::new_settings(Cow::Borrowed(payload)),
        FrameKind::WebTransport => Frame::new_webtransport(kani::any()),
        FrameKind::Exercise(id) => Frame::new_exercise(id, Cow::Borrowed(payload)),
    }
}

/// Reference encoding of a frame, byte `i` (RFC 9114 §7.1: type varint, length varint, payload;
/// WT draft: 0x41 varint, session id varint).
fn ref_frame_byte(kind: u64, session: Option<u64>, payload: &[u8], i: usize) -> u8 {
    let n1 = spec::varint_len(kind);
    if i < n1 {
        return spec::varint_byte(kind, i);
    }
    let second = match session {
        Some(s) => s,
        None => payload.len() as u64,
    };
    let n2 = spec::varint_len(second);
    if i < n1 + n2 {
        return spec::varint_byte(second, i - n1);
    }
    payload[i - n1 - n2]
}

/// For every frame kind, every valid id / session id, every payload of length <= P and every
/// destination capacity: `write_size` is the exact RFC length; `write_to_buffer` succeeds iff the
/// capacity suffices, then writes exactly `write_size` bytes equal to the reference encoding and
/// nothing else, and otherwise leaves buffer and offset untouched; decoding the output yields an
/// equal frame and consumes exactly those bytes.
fn frame_write_roundtrip<const P: usize, const N: usize>() {
    crate::verif_kani::oracle::enable();
    let pbytes: [u8; P] = kani::any();
    let plen: usize = kani::any();
    kani::assume(plen <= P);
    let frame = any_frame(&pbytes[..plen]);
    let kind = frame_kind_code(&frame.kind());
    let session = frame.session_id().map(|s| s.into_u64());
    let payload_len = frame.payload().len();
    let expect_size = spec::varint_len(kind)
        + match session {
            Some(s) => spec::varint_len(s),
            None => spec::varint_len(payload_len as u64) + payload_len,
        };
    assert!(frame.write_size() == expect_size);

    let cap: usize = kani::any();
    kani::assume(cap <= N);
    let init: [u8; N] = kani::any();
    let mut out = init;
    let (res, off) = {
        let mut w = BufferWriter::new(&mut out[..cap]);
        let r = frame.write_to_buffer(&mut w);
        (r, w.offset())
    };
    assert!(res.is_ok() == (cap >= expect_size));
    assert!(off == if res.is_ok() { expect_size } else { 0 });
    let i: usize = kani::any();
    kani::assume(i < N);
    if res.is_ok() && i < expect_size {
        assert!(out[i] == ref_frame_byte(kind, session, frame.payload(), i));
    } else {
        assert!(out[i] == init[i]);
    }

    if res.is_ok() {
        let mut s: &[u8] = &out[..cap];
        match Frame::read(&mut s) {
            Ok(Some(back)) => {
                assert!(frame_kind_code(&back.kind()) == kind);
                assert!(back.session_id().map(|s| s.into_u64()) == session);
                assert!(back.payload().len() == payload_len);
                let j: usize = kani::any();
                if j < payload_len {
                    assert!(back.payload()[j] == frame.payload()[j]);
                }
                assert!(cap - s.len() == expect_size);
            }
            _ => panic!("decoding an encoded frame did not yield a frame"),
        }
    }
    kani::cover!(res.is_ok() && session.is_some());
    kani::cover!(res.is_ok() && payload_len == P);
    kani::cover!(res.is_err() && cap + 1 == expect_size);
}

#[kani::proof]
#[kani::unwind(12)]
#[kani::stub(FrameKind::is_id_exercise, crate::verif_kani::oracle::grease_varint)]
pub fn p_frame_write_roundtrip_8() {
    frame_write_roundtrip::<8, 26>();
}

/// crosses the 63/64 boundary of the length varint
#[kani::proof]
#[kani::unwind(12)]
#[kani::stub(FrameKind::is_id_exercise, crate::verif_kani::oracle::grease_varint)]
pub fn p_frame_write_roundtrip_70() {
    frame_write_roundtrip::<70, 90>();
}

/// `Frame::write` into a BufferWriter / Vec: Err iff too small (partial write allowed), Vec never
/// fails and appends exactly the reference encoding.
#[kani::proof]
#[kani::unwind(12)]
#[kani::stub(FrameKind::is_id_exercise, crate::verif_kani::oracle::grease_varint)]
pub fn p_frame_write_plain() {
    crate::verif_kani::oracle::enable();
    let pbytes: [u8; 4] = kani::any();
    let plen: usize = kani::any();
    kani::assume(plen <= 4);
    let frame = any_frame(&pbytes[..plen]);
    let size = frame.write_size();
    let cap: usize = kani::any();
    kani::assume(cap <= 24);
    let mut out: [u8; 24] = kani::any();
    let (res, off) = {
        let mut w = BufferWriter::new(&mut out[..cap]);
        let r = frame.write(&mut w);
        (r, w.offset())
    };
    assert!(res.is_ok() == (cap >= size));
    if res.is_ok() {
        assert!(off == size);
        let i: usize = kani::any();
        kani::assume(i < size);
        assert!(out[i] == ref_frame_byte(frame_kind_code(&frame.kind()), frame.session_id().map(|s| s.into_u64()), frame.payload(), i));
    } else {
        assert!(off <= cap);
    }
    kani::cover!(res.is_err());
    kani::cover!(res.is_ok() && size == 13);
}


// ---- async composite on the crate's always-ready `&[u8]` source ---------------------------------

fn poll_once<F: core::future::Future>(f: F) -> core::task::Poll<F::Output> {
    let mut f = core::pin::pin!(f);
    let mut cx = core::task::Context::from_waker(core::task::Waker::noop());
    f.as_mut().poll(&mut cx)
}

/// ASYNC encoder on an always-ready destination: `Frame::write_async` emits exactly the reference
/// encoding (the bytes `write_size` announces, the bytes the sans-IO encoder writes) and nothing else.
#[kani::proof]
#[kani::unwind(12)]
#[kani::stub(FrameKind::is_id_exercise, crate::verif_kani::oracle::grease_varint)]
pub fn p_frame_write_async_exact() {
    use crate::stream_header::verif_kani::ReadySink;
    crate::verif_kani::oracle::enable();
    let pbytes: [u8; 4] = kani::any();
    let plen: usize = kani::any();
    kani::assume(plen <= 4);
    let frame = any_frame(&pbytes[..plen]);
    let size = frame.write_size();
    let mut sink = ReadySink { data: [0; 24], pos: 0 };
    let done = matches!(poll_once(frame.write_async(&mut sink)), core::task::Poll::Ready(Ok(())));
    assert!(done);
    assert!(sink.pos == size);
    let i: usize = kani::any();
    kani::assume(i < 24);
    if i < size {
        assert!(sink.data[i] == ref_frame_byte(frame_kind_code(&frame.kind()), frame.session_id().map(|s| s.into_u64()), frame.payload(), i));
    } else {
        assert!(sink.data[i] == 0);
    }
    kani::cover!(size == 13);
    kani::cover!(frame.session_id().is_some());
}

// (A fully symbolic composite harness for `Frame::read_async` does not terminate in CBMC - symbolic-size
// `vec![0; payload_len]` - the async copies of the logic are verified by the Verus unit `frame_async`.)

/// The parse limit on the async path, with the declared length CONCRETE (4095, 4096, 4097) so the
/// allocation has a concrete size: a frame that declares exactly 4096 bytes is NOT too big (the
/// source ends early here, so the verdict is `UnexpectedFin`), 4097 is.
#[kani::proof]
#[kani::unwind(12)]
pub fn p_frame_read_async_at_limit() {
    let kind: u8 = kani::any();
    kani::assume(kind == 0x00 || kind == 0x01 || kind == 0x04 || kind == 0x21 || kind == 0x0d);
    let which: u8 = kani::any();
    kani::assume(which < 3);
    let declared: u16 = 4095 + which as u16;
    let tail: [u8; 3] = kani::any();
    // 2-byte varint: 0b01 prefix
    let buf: [u8; 6] = [kind, 0x40 | (declared >> 8) as u8, (declared & 0xff) as u8, tail[0], tail[1], tail[2]];
    let mut src: &[u8] = &buf[..];
    let got = match poll_once(Frame::read_async(&mut src)) {
        core::task::Poll::Ready(r) => r,
        core::task::Poll::Pending => panic!("an always-ready source cannot make the future pend"),
    };
    match got {
        Err(IoReadError::Parse(ParseError::PayloadTooBig)) => { assert!(declared as usize > spec::MAX_PARSE_PAYLOAD); }
        Err(IoReadError::IO(bytes::IoReadError::UnexpectedFin)) => { assert!(declared as usize <= spec::MAX_PARSE_PAYLOAD); }
        _ => panic!("unexpected verdict at the parse limit"),
    }
    kani::cover!(declared == 4096);
    kani::cover!(declared == 4097);
}
