//! Helpers shared by harnesses.
use crate::bytes::{BufferWriter, BytesWriter};
use crate::varint::VarInt;

use super::spec;

/// Writes the *reference* encoding of `v` (spec::varint_byte) at `buf[off..]`, returns new offset.
/// Never uses the crate's encoder.
pub fn put_ref_varint<const N: usize>(buf: &mut [u8; N], off: usize, v: u64) -> usize {
    let n = spec::varint_len(v);
    let mut i = 0;
    while i < n {
        if off + i < N {
            buf[off + i] = spec::varint_byte(v, i);
        }
        i += 1;
    }
    off + n
}

/// Symbolic byte array.
pub fn any_bytes<const N: usize>() -> [u8; N] {
    kani::any()
}
