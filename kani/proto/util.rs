//! Helpers shared by harnesses.
use crate::bytes::{BufferWriter, BytesWriter};
use crate::varint::VarInt;

use super::spec;

/// Writes the *reference* encoding of `v` (spec::varint_byte) at `buf[off..]`, returns new offset.
/// Never uses the crate's encoder.
pub fn put_ref_varint<const N: usize>(buf: &mut [u8; N], off: usize, v: u64) -> usize {
    let n = spec::varint_len(v);
    // loop-free (n is 1, 2, 4 or 8) so that harnesses can use small unwinding bounds
    put1(buf, off, spec::varint_byte(v, 0));
    if n >= 2 {
        put1(buf, off + 1, spec::varint_byte(v, 1));
    }
    if n >= 4 {
        put1(buf, off + 2, spec::varint_byte(v, 2));
        put1(buf, off + 3, spec::varint_byte(v, 3));
    }
    if n == 8 {
        put1(buf, off + 4, spec::varint_byte(v, 4));
        put1(buf, off + 5, spec::varint_byte(v, 5));
        put1(buf, off + 6, spec::varint_byte(v, 6));
        put1(buf, off + 7, spec::varint_byte(v, 7));
    }
    off + n
}

fn put1<const N: usize>(buf: &mut [u8; N], i: usize, b: u8) {
    if i < N {
        buf[i] = b;
    }
}

/// Symbolic byte array.
pub fn any_bytes<const N: usize>() -> [u8; N] {
    kani::any()
}
