//! Leaf futures of `bytes::r#async` (C15, C01): ONE-STEP INDUCTIVE contracts on `Future::poll`.
//!
//! Each harness starts from an ARBITRARY state of the future that satisfies the invariant `I`
//! (its private fields are reachable because this module is compiled inside `bytes::r#async`) and
//! lets the source/sink behave arbitrarily for one `poll`: any chunk size, `Pending`, end of
//! stream, reset, disconnect. It shows that `I` is preserved on `Pending` and that every `Ready`
//! outcome is the specified one. By induction on the number of polls the contract holds for every
//! chunking of the input and every pattern of `Pending` results - with no bound on either.
#![cfg(not(verif_skip_in_bytes_async))] // lets the check driver drop this harness module if it no longer compiles against changed code
#![allow(dead_code, unused_imports, missing_docs)]
use super::*;
use crate::verif_kani::spec;
use std::task::Waker;

/// Source with fully nondeterministic behaviour; `data[..len]` is the whole stream.
pub struct Src {
    pub data: [u8; 16],
    pub pos: usize,
    pub len: usize,
    pub last: u8, // 0 pending, 1 reset, 2 not-connected, 3 data/eof
}

impl AsyncRead for Src {
    fn poll_read(self: Pin<&mut Self>, _cx: &mut Context<'_>, buf: &mut [u8]) -> Poll<std::io::Result<usize>> {
        let this = self.get_mut();
        let choice: u8 = kani::any();
        kani::assume(choice <= 3);
        this.last = choice;
        if choice == 0 {
            return Poll::Pending;
        }
        if choice == 1 {
            return Poll::Ready(Err(IoErrorKind::ConnectionReset.into()));
        }
        if choice == 2 {
            return Poll::Ready(Err(IoErrorKind::NotConnected.into()));
        }
        let avail = this.len - this.pos;
        let max = if avail < buf.len() { avail } else { buf.len() };
        let k: usize = kani::any();
        // AsyncRead contract: 0 iff `buf` is empty or the source is exhausted
        kani::assume(k <= max && (k > 0 || max == 0));
        let mut i = 0;
        while i < 8 {
            if i < k {
                buf[i] = this.data[this.pos + i];
            }
            i += 1;
        }
        this.pos += k;
        Poll::Ready(Ok(k))
    }
}

/// Sink accepting an arbitrary non-empty prefix of what it is offered (or Pending / errors).
pub struct Sink {
    pub data: [u8; 16],
    pub pos: usize,
    pub last: u8,
}

impl AsyncWrite for Sink {
    fn poll_write(self: Pin<&mut Self>, _cx: &mut Context<'_>, buf: &[u8]) -> Poll<std::io::Result<usize>> {
        let this = self.get_mut();
        let choice: u8 = kani::any();
        kani::assume(choice <= 3);
        this.last = choice;
        if choice == 0 {
            return Poll::Pending;
        }
        if choice == 1 {
            return Poll::Ready(Err(IoErrorKind::ConnectionReset.into()));
        }
        if choice == 2 {
            return Poll::Ready(Err(IoErrorKind::NotConnected.into()));
        }
        let k: usize = kani::any();
        // AsyncWrite contract: never Ok(0) for a non-empty buffer
        kani::assume(k >= 1 && k <= buf.len() && this.pos + k <= 16);
        let mut i = 0;
        while i < 8 {
            if i < k {
                this.data[this.pos + i] = buf[i];
            }
            i += 1;
        }
        this.pos += k;
        Poll::Ready(Ok(k))
    }
}

fn ctx_poll<F: Future + Unpin>(f: &mut F) -> Poll<F::Output> {
    let waker = Waker::noop();
    let mut cx = Context::from_waker(waker);
    Pin::new(f).poll(&mut cx)
}

// ---- GetVarint -----------------------------------------------------------------------------------

/// Invariant I of `GetVarint` after `offset` bytes were taken from the source starting at `start`:
/// offset <= varint_size <= 8; offset == 0 <=> varint_size == 0; offset > 0 => varint_size ==
/// length announced by the first byte, offset < varint_size never exceeds it; the bytes stored are
/// exactly the bytes taken; the source position is start + offset (nothing over-read, nothing lost).
#[kani::proof]
#[kani::unwind(10)]
pub fn p_get_varint_poll_step() {
    let data: [u8; 16] = kani::any();
    let len: usize = kani::any();
    let start: usize = kani::any();
    let offset: usize = kani::any();
    kani::assume(len <= 16 && start <= 8 && start <= len);
    // arbitrary I-state
    kani::assume(offset <= 8 && start + offset <= len);
    let varint_size = if offset == 0 { 0 } else { spec::varint_len_from_first(data[start]) };
    kani::assume(offset == 0 || offset < varint_size);
    let mut src = Src { data, pos: start + offset, len, last: 9 };
    let mut buffer = [0u8; VarInt::MAX_SIZE];
    let mut i = 0;
    while i < 8 {
        if i < offset {
            buffer[i] = data[start + i];
        }
        i += 1;
    }
    let mut fut = GetVarint { reader: &mut src, buffer, offset, varint_size };
    let res = ctx_poll(&mut fut);
    let (o2, vs2, b2) = (fut.offset, fut.varint_size, fut.buffer);
    let pos = src.pos;
    let taken = pos - start;
    // never over-reads: at most the announced length is ever taken from the source
    assert!(taken == o2);
    if o2 > 0 {
        assert!(vs2 == spec::varint_len_from_first(data[start]));
        assert!(o2 <= vs2);
        let j: usize = kani::any();
        if j < o2 {
            assert!(b2[j] == data[start + j]);
        }
    } else {
        assert!(vs2 == 0);
    }
    match res {
        Poll::Pending => {
            assert!(src.last == 0);
            assert!(o2 == 0 || o2 < vs2); // I again
        }
        Poll::Ready(Ok(v)) => {
            let n = spec::varint_len_from_first(data[start]);
            assert!(taken == n);
            assert!(v.into_inner() == spec::varint_value(&data[start..], n));
            assert!(v.into_inner() <= spec::VARINT_MAX);
        }
        Poll::Ready(Err(IoReadError::ImmediateFin)) => {
            assert!(taken == 0 && pos == len && src.last == 3);
        }
        Poll::Ready(Err(IoReadError::UnexpectedFin)) => {
            assert!(taken >= 1 && pos == len && src.last == 3);
        }
        Poll::Ready(Err(IoReadError::Reset)) => { assert!(src.last == 1); }
        Poll::Ready(Err(IoReadError::NotConnected)) => { assert!(src.last == 2); }
    }
    kani::cover!(matches!(res, Poll::Ready(Ok(_))) && offset > 0 && taken == 8);
    kani::cover!(matches!(res, Poll::Ready(Ok(_))) && offset == 0 && taken == 4);
    kani::cover!(matches!(res, Poll::Pending) && o2 > offset);
    kani::cover!(matches!(res, Poll::Ready(Err(IoReadError::ImmediateFin))));
    kani::cover!(matches!(res, Poll::Ready(Err(IoReadError::UnexpectedFin))));
}

/// Base case: the constructor establishes I with offset 0.
#[kani::proof]
pub fn p_get_varint_new_establishes_invariant() {
    let mut src = Src { data: kani::any(), pos: 0, len: 0, last: 9 };
    let f = GetVarint::new(&mut src);
    assert!(f.offset == 0 && f.varint_size == 0);
}

// ---- GetBuffer -----------------------------------------------------------------------------------

#[kani::proof]
#[kani::unwind(10)]
pub fn p_get_buffer_poll_step() {
    let data: [u8; 16] = kani::any();
    let len: usize = kani::any();
    let start: usize = kani::any();
    let want: usize = kani::any();
    let offset: usize = kani::any();
    kani::assume(len <= 16 && start <= 8 && start <= len && want <= 8);
    // arbitrary I-state: offset < want bytes already stored == bytes taken (offset == want only if want == 0)
    kani::assume(offset <= want && (offset < want || want == 0) && start + offset <= len);
    let mut src = Src { data, pos: start + offset, len, last: 9 };
    let mut storage = [0u8; 8];
    let mut i = 0;
    while i < 8 {
        if i < offset {
            storage[i] = data[start + i];
        }
        i += 1;
    }
    let res;
    let o2;
    {
        let mut fut = GetBuffer { reader: &mut src, buffer: &mut storage[..want], offset };
        res = ctx_poll(&mut fut);
        o2 = fut.offset;
    }
    let pos = src.pos;
    let taken = pos - start;
    assert!(taken == o2 && o2 <= want);
    let j: usize = kani::any();
    if j < o2 {
        assert!(storage[j] == data[start + j]);
    }
    match res {
        Poll::Pending => { assert!(src.last == 0 && o2 < want); }
        Poll::Ready(Ok(())) => { assert!(taken == want); }
        Poll::Ready(Err(IoReadError::ImmediateFin)) => { assert!(taken == 0 && want > 0 && pos == len); }
        Poll::Ready(Err(IoReadError::UnexpectedFin)) => { assert!(taken >= 1 && taken < want && pos == len); }
        Poll::Ready(Err(IoReadError::Reset)) => { assert!(src.last == 1); }
        Poll::Ready(Err(IoReadError::NotConnected)) => { assert!(src.last == 2); }
    }
    kani::cover!(matches!(res, Poll::Ready(Ok(()))) && want == 8 && offset == 3);
    kani::cover!(matches!(res, Poll::Ready(Ok(()))) && want == 0);
    kani::cover!(matches!(res, Poll::Pending) && o2 > offset);
    kani::cover!(matches!(res, Poll::Ready(Err(IoReadError::UnexpectedFin))));
}

// ---- PutVarint / PutBuffer -----------------------------------------------------------------------

/// `PutVarint::new` encodes exactly the RFC bytes; one poll from any progress state writes only
/// bytes of that encoding, in order, and completes exactly when all `size(v)` bytes are out.
#[kani::proof]
#[kani::unwind(10)]
pub fn p_put_varint_poll_step() {
    let v: VarInt = kani::any();
    let mut sink = Sink { data: [0; 16], pos: 0, last: 9 };
    let offset: usize = kani::any();
    let n = spec::varint_len(v.into_inner());
    let res;
    let o2;
    {
        let mut fut = PutVarint::new(&mut sink, v);
        // constructor: buffer == RFC encoding, size exact
        assert!(fut.varint_size == n && fut.offset == 0);
        let j: usize = kani::any();
        if j < n {
            assert!(fut.buffer[j] == spec::varint_byte(v.into_inner(), j));
        }
        // arbitrary progress
        kani::assume(offset < n);
        fut.offset = offset;
        res = ctx_poll(&mut fut);
        o2 = fut.offset;
    }
    let written = sink.pos;
    assert!(o2 == offset + written && o2 <= n);
    let j: usize = kani::any();
    if j < written {
        assert!(sink.data[j] == spec::varint_byte(v.into_inner(), offset + j));
    }
    match res {
        Poll::Pending => { assert!(sink.last == 0 && o2 < n); }
        Poll::Ready(Ok(())) => { assert!(o2 == n); }
        Poll::Ready(Err(IoWriteError::Stopped)) => { assert!(sink.last == 1); }
        Poll::Ready(Err(IoWriteError::NotConnected)) => { assert!(sink.last == 2); }
    }
    kani::cover!(matches!(res, Poll::Ready(Ok(()))) && n == 8 && offset == 0);
    kani::cover!(matches!(res, Poll::Pending) && o2 > offset);
}

#[kani::proof]
#[kani::unwind(10)]
pub fn p_put_buffer_poll_step() {
    let src: [u8; 8] = kani::any();
    let total: usize = kani::any();
    let offset: usize = kani::any();
    kani::assume(total <= 8 && offset <= total && (offset < total || total == 0));
    let mut sink = Sink { data: [0; 16], pos: 0, last: 9 };
    let res;
    let o2;
    {
        let mut fut = PutBuffer { writer: &mut sink, buffer: &src[..total], offset };
        res = ctx_poll(&mut fut);
        o2 = fut.offset;
    }
    let written = sink.pos;
    assert!(o2 == offset + written && o2 <= total);
    let j: usize = kani::any();
    if j < written {
        assert!(sink.data[j] == src[offset + j]);
    }
    match res {
        Poll::Pending => { assert!(sink.last == 0 && o2 < total); }
        Poll::Ready(Ok(())) => { assert!(o2 == total); }
        Poll::Ready(Err(IoWriteError::Stopped)) => { assert!(sink.last == 1); }
        Poll::Ready(Err(IoWriteError::NotConnected)) => { assert!(sink.last == 2); }
    }
    kani::cover!(matches!(res, Poll::Ready(Ok(()))) && total == 8);
    kani::cover!(matches!(res, Poll::Ready(Ok(()))) && total == 0);
    kani::cover!(matches!(res, Poll::Pending) && o2 > offset);
}

/// io::Error -> IoReadError / IoWriteError mapping (every ErrorKind the traits document).
#[kani::proof]
pub fn p_io_error_mapping() {
    assert!(matches!(IoReadError::from(std::io::Error::from(IoErrorKind::ConnectionReset)), IoReadError::Reset));
    assert!(matches!(IoReadError::from(std::io::Error::from(IoErrorKind::NotConnected)), IoReadError::NotConnected));
    assert!(matches!(IoWriteError::from(std::io::Error::from(IoErrorKind::ConnectionReset)), IoWriteError::Stopped));
    assert!(matches!(IoWriteError::from(std::io::Error::from(IoErrorKind::NotConnected)), IoWriteError::NotConnected));
}

// ---- C05: cancellation (a future dropped while Pending) ---------------------------------------------

/// A leaf future that is DROPPED while `Pending` must not have taken input out of the source:
/// whatever it took lives only in the dropped future (the driver's `select!` loop drops the
/// control-stream readers whenever another branch completes first).
#[kani::proof]
#[kani::unwind(10)]
pub fn p_get_varint_cancel_keeps_input() {
    let data: [u8; 16] = kani::any();
    let len: usize = kani::any();
    let start: usize = kani::any();
    kani::assume(len <= 16 && start <= 8 && start <= len);
    let mut src = Src { data, pos: start, len, last: 9 };
    let res = {
        let mut fut = GetVarint::new(&mut src);
        ctx_poll(&mut fut)
        // `fut` is dropped here
    };
    if matches!(res, Poll::Pending) {
        assert!(src.pos == start, "input taken by a GetVarint that is dropped while Pending is lost");
    }
    kani::cover!(matches!(res, Poll::Pending));
    kani::cover!(matches!(res, Poll::Ready(Ok(_))));
}

/// Same for `GetBuffer` (destination of up to 8 bytes).
#[kani::proof]
#[kani::unwind(10)]
pub fn p_get_buffer_cancel_keeps_input() {
    let data: [u8; 16] = kani::any();
    let len: usize = kani::any();
    let start: usize = kani::any();
    let want: usize = kani::any();
    kani::assume(len <= 16 && start <= 8 && start <= len && want <= 8);
    let mut src = Src { data, pos: start, len, last: 9 };
    let mut storage = [0u8; 8];
    let res = {
        let mut fut = GetBuffer { reader: &mut src, buffer: &mut storage[..want], offset: 0 };
        ctx_poll(&mut fut)
    };
    if matches!(res, Poll::Pending) {
        assert!(src.pos == start, "input taken by a GetBuffer that is dropped while Pending is lost");
    }
    kani::cover!(matches!(res, Poll::Pending));
    kani::cover!(matches!(res, Poll::Ready(Ok(()))));
}
