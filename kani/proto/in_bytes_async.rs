//! placeholder
