//! Harnesses compiled inside `crate::capsule` (C04, C11, C13).
#![cfg(not(verif_skip_in_capsule))] // lets the check driver drop this harness module if it no longer compiles against changed code
#![allow(dead_code, unused_imports, missing_docs)]
use super::capsules::CloseWebTransportSession;
use super::*;
use crate::verif_kani::spec;
use std::borrow::Cow;

#[kani::proof_for_contract(CapsuleKind::parse)]
pub fn c_capsulekind_parse() {
    let id: VarInt = kani::any();
    let r = CapsuleKind::parse(id);
    kani::cover!(r.is_some());
    kani::cover!(r.is_none());
}

/// Every DATA-frame payload of <= 16 bytes: `Some` iff it is `varint(0x2843) varint(L) L bytes ...`
/// (RFC 9297 §3.2); the capsule payload is exactly the L declared bytes; every other type
/// (unknown / GREASE capsules) and every truncation is `None`; never panics.
#[kani::proof]
#[kani::unwind(10)]
pub fn p_capsule_with_frame() {
    let b: [u8; 16] = kani::any();
    let len: usize = kani::any();
    kani::assume(len <= 16);
    let frame = Frame::new_data(Cow::Borrowed(&b[..len]));
    let got = Capsule::with_frame(&frame);
    // reference
    let mut exp: Option<(usize, usize)> = None; // (payload offset, payload len)
    if len > 0 && len >= spec::varint_len_from_first(b[0]) {
        let n1 = spec::varint_len_from_first(b[0]);
        let t = spec::varint_value(&b, n1);
        if t == spec::CAPSULE_CLOSE_WT_SESSION && len > n1 && len - n1 >= spec::varint_len_from_first(b[n1]) {
            let n2 = spec::varint_len_from_first(b[n1]);
            let l = spec::varint_value(&b[n1..], n2);
            if l <= (len - n1 - n2) as u64 {
                exp = Some((n1 + n2, l as usize));
            }
        }
    }
    match (exp, &got) {
        (None, None) => {}
        (Some((off, l)), Some(c)) => {
            assert!(matches!(c.kind(), CapsuleKind::CloseWebTransportSession));
            assert!(c.payload().len() == l);
            assert!(l == 0 || c.payload().as_ptr() == b[off..].as_ptr());
        }
        _ => panic!("Capsule::with_frame disagrees with RFC 9297 3.2"),
    }
    kani::cover!(got.is_some());
    kani::cover!(got.is_none() && len > 4);
}

static mut UTF8_VERDICT: Option<bool> = None;

fn utf8_verdict_stub(v: &[u8]) -> Result<&str, core::str::Utf8Error> {
    let verdict: bool = kani::any();
    unsafe {
        UTF8_VERDICT = Some(verdict);
    }
    if verdict {
        // SAFETY (verification stub): the caller only copies the bytes into a String
        Ok(unsafe { core::str::from_utf8_unchecked(v) })
    } else {
        // (from_utf8_mut is a different function, not affected by the stub)
        let mut bad = [0xffu8];
        Err(core::str::from_utf8_mut(&mut bad).unwrap_err())
    }
}

/// CLOSE_WEBTRANSPORT_SESSION, length boundary, for payload lengths 0..=1030 (UTF-8 validation
/// replaced by an arbitrary recorded verdict): `Ok` IFF 4 <= len <= 4 + 1024 and the verdict is valid;
/// the error code is the big-endian first four bytes for all 2^32 codes; the reason has exactly
/// len - 4 bytes; every error is H3_DATAGRAM_ERROR (protocol failure, never an application close).
#[kani::proof]
#[kani::unwind(3)]
#[kani::stub(core::str::from_utf8, utf8_verdict_stub)]
pub fn p_close_wt_session_length_and_code() {
    let b: [u8; 1030] = kani::any();
    let len: usize = kani::any();
    kani::assume(len <= 1030);
    let capsule = Capsule { kind: CapsuleKind::CloseWebTransportSession, payload: &b[..len] };
    let got = CloseWebTransportSession::with_capsule(&capsule);
    let in_range = len >= 4 && len <= 4 + spec::CLOSE_REASON_MAX;
    // accepted EXACTLY when the length is in range and the reason is valid UTF-8 (a reason of up
    // to 1024 bytes is never refused for its length); UTF-8 is consulted only for in-range lengths
    match unsafe { UTF8_VERDICT } {
        Some(valid) => {
            assert!(in_range);
            assert!(got.is_ok() == valid);
        }
        None => {
            assert!(!in_range && got.is_err());
        }
    }
    match got {
        Ok(c) => {
            assert!(len >= 4 && len <= 4 + spec::CLOSE_REASON_MAX);
            let code = ((b[0] as u32) << 24) | ((b[1] as u32) << 16) | ((b[2] as u32) << 8) | b[3] as u32;
            assert!(c.error_code().into_inner() == code as u64);
            assert!(c.reason().len() == len - 4);
        }
        Err(e) => {
            assert!(e.to_code().into_inner() == spec::error_code::H3_DATAGRAM_ERROR);
        }
    }
    kani::cover!(len == 1028);
    kani::cover!(len == 1029);
    kani::cover!(len == 3);
}

/// Same with the REAL `core::str::from_utf8`, reasons of <= 4 bytes: `Ok` iff 4 <= len and the
/// reason is valid UTF-8; reason bytes are returned unchanged.
#[kani::proof]
#[kani::unwind(12)]
pub fn p_close_wt_session_reason_bytes() {
    let b: [u8; 8] = kani::any();
    let len: usize = kani::any();
    kani::assume(len <= 8);
    let capsule = Capsule { kind: CapsuleKind::CloseWebTransportSession, payload: &b[..len] };
    let got = CloseWebTransportSession::with_capsule(&capsule);
    let valid = len >= 4 && core::str::from_utf8(&b[4..len]).is_ok();
    assert!(got.is_ok() == valid);
    if let Ok(c) = got {
        assert!(c.reason().len() == len - 4);
        let i: usize = kani::any();
        if i < len - 4 {
            assert!(c.reason().as_bytes()[i] == b[4 + i]);
        }
    }
    kani::cover!(valid && len == 8);
    kani::cover!(!valid && len >= 4);
}
