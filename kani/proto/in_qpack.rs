//! Harnesses compiled inside `crate::qpack` (private: decode_integer, encode_integer,
//! decode_field_line_type, StaticTable).
#![cfg(not(verif_skip_in_qpack))] // lets the check driver drop this harness module if it no longer compiles against changed code
#![allow(dead_code, unused_imports, missing_docs)]
use super::*;
use crate::bytes::BufferWriter;
use crate::verif_kani::spec;

/// RFC 7541 §5.1 reference decoder over u128, with the implementation limit the crate documents
/// by its error: a value above `usize::MAX`, or a continuation beyond ceil(64/7) = 10 octets, is
/// `IntegerOverflow`.
#[derive(PartialEq, Eq, Debug, Clone, Copy)]
enum RefInt {
    Fin,
    Overflow,
    Value { flags: u8, value: usize, consumed: usize },
}

fn ref_prefix_int<const L: usize>(n: u32, b: &[u8; L], len: usize) -> RefInt {
    if len == 0 {
        return RefInt::Fin;
    }
    let mask: u128 = (1u128 << n) - 1;
    let flags = ((b[0] as u32) >> n) as u8;
    let mut value: u128 = (b[0] as u128) & mask;
    if value != mask {
        return RefInt::Value { flags, value: value as usize, consumed: 1 };
    }
    let mut i = 1usize;
    while i < L {
        if i >= len {
            return RefInt::Fin;
        }
        let chunk = (b[i] & 0x7f) as u128;
        let power = 7 * (i as u32 - 1);
        if power >= usize::BITS {
            return RefInt::Overflow;
        }
        value += chunk << power;
        if value > usize::MAX as u128 {
            return RefInt::Overflow;
        }
        if b[i] & 0x80 == 0 {
            return RefInt::Value { flags, value: value as usize, consumed: i + 1 };
        }
        i += 1;
    }
    // L = 12 >= 1 + 10 + 1: unreachable, the power limit fires first
    RefInt::Overflow
}

fn decode_integer_matches_reference<const N: usize>() {
    let b: [u8; 12] = kani::any();
    let len: usize = kani::any();
    kani::assume(len <= 12);
    let exp = ref_prefix_int::<12>(N as u32, &b, len);
    let mut s: &[u8] = &b[..len];
    let got = Decoder::decode_integer::<N, _>(&mut s);
    let consumed = len - s.len();
    match (&exp, &got) {
        (RefInt::Fin, Err(DecodingError::UnexpectedFin)) => {}
        (RefInt::Overflow, Err(DecodingError::IntegerOverflow)) => {}
        (RefInt::Value { flags, value, consumed: c }, Ok((f, v))) => {
            assert!(*f == *flags);
            assert!(*v == *value);
            assert!(consumed == *c);
        }
        _ => panic!("decode_integer disagrees with RFC 7541 5.1"),
    }
    kani::cover!(matches!(exp, RefInt::Overflow));
    kani::cover!(matches!(exp, RefInt::Fin) && len > 3);
    kani::cover!(matches!(exp, RefInt::Value { consumed: 11, .. }));
    kani::cover!(matches!(exp, RefInt::Value { value: usize::MAX, .. }));
}

macro_rules! dec_harness {
    ($name:ident, $n:expr) => {
        /// EVERY byte string of <= 12 octets (one more than the longest accepted encoding):
        /// result == RFC 7541 §5.1; no shift/add overflow, no panic; loop bounded by the operand
        /// width (unwinding assertion on) => complete.
        #[kani::proof]
        #[kani::unwind(14)]
        pub fn $name() {
            decode_integer_matches_reference::<$n>();
        }
    };
}
dec_harness!(p_qpack_decode_integer_n3, 3);
dec_harness!(p_qpack_decode_integer_n4, 4);
dec_harness!(p_qpack_decode_integer_n6, 6);
dec_harness!(p_qpack_decode_integer_n7, 7);
dec_harness!(p_qpack_decode_integer_n8, 8);
dec_harness!(p_qpack_decode_integer_n1, 1);

fn encode_integer_roundtrip<const N: usize>() {
    let value: usize = kani::any();
    let flags: u8 = kani::any();
    kani::assume(N == 8 || (flags as u32) < (1u32 << (8 - N)));
    let cap: usize = kani::any();
    kani::assume(cap <= 12);
    let mut out: [u8; 12] = kani::any();
    let (res, n) = {
        let mut w = BufferWriter::new(&mut out[..cap]);
        let r = Encoder::encode_integer::<N, _>(flags, value, &mut w);
        (r, w.offset())
    };
    let want = spec::prefix_int_len(N as u32, value as u128);
    assert!(want <= 11);
    assert!(res.is_ok() == (cap >= want));
    if res.is_ok() {
        assert!(n == want);
        let mask = (1u128 << N) - 1;
        let eflags = if N == 8 { 0 } else { flags << N };
        if (value as u128) < mask {
            assert!(out[0] == eflags | value as u8);
        } else {
            assert!(out[0] == eflags | mask as u8);
            let i: usize = kani::any();
            kani::assume(i >= 1 && i < want);
            assert!(out[i] == spec::prefix_int_cont_byte(N as u32, value as u128, i));
        }
        // exact inverse, exact consumption, trailing bytes ignored
        let mut s: &[u8] = &out[..cap];
        match Decoder::decode_integer::<N, _>(&mut s) {
            Ok((f, v)) => {
                assert!(v == value);
                assert!(f == if N == 8 { 0 } else { flags });
                assert!(cap - s.len() == want);
            }
            Err(_) => panic!("decoding an encoded prefix integer failed"),
        }
    }
    kani::cover!(res.is_ok() && want == 11);
    kani::cover!(res.is_ok() && want == 1);
    kani::cover!(res.is_err());
    kani::cover!(res.is_ok() && value == usize::MAX);
}

macro_rules! enc_harness {
    ($name:ident, $n:expr) => {
        /// For ALL `usize` values, all flag bits, all capacities: encoder output == RFC 7541 §5.1,
        /// Err iff too small, decode(encode(v)) == v consuming exactly the encoding.
        #[kani::proof]
        #[kani::unwind(14)]
        pub fn $name() {
            encode_integer_roundtrip::<$n>();
        }
    };
}
enc_harness!(p_qpack_encode_integer_n3, 3);
enc_harness!(p_qpack_encode_integer_n4, 4);
enc_harness!(p_qpack_encode_integer_n6, 6);
enc_harness!(p_qpack_encode_integer_n7, 7);
enc_harness!(p_qpack_encode_integer_n8, 8);

/// RFC 9204 §4.5.2-§4.5.6: classification of every first byte; `unreachable!()` is unreachable.
#[kani::proof]
pub fn p_qpack_field_line_type() {
    let b: u8 = kani::any();
    let t = Decoder::decode_field_line_type(b);
    match t {
        FieldLineType::Indexed => { assert!(b & 0b1000_0000 == 0b1000_0000); }
        FieldLineType::LiteralRefName => { assert!(b & 0b1100_0000 == 0b0100_0000); }
        FieldLineType::LiteralLitName => { assert!(b & 0b1110_0000 == 0b0010_0000); }
        FieldLineType::IndexedPost => { assert!(b & 0b1111_0000 == 0b0001_0000); }
        FieldLineType::LiteralPostRefName => { assert!(b & 0b1111_0000 == 0b0000_0000); }
    }
}

fn str_eq(a: &str, b: &str) -> bool {
    let (a, b) = (a.as_bytes(), b.as_bytes());
    if a.len() != b.len() {
        return false;
    }
    let mut i = 0;
    while i < a.len() {
        if a[i] != b[i] {
            return false;
        }
        i += 1;
    }
    true
}

/// The crate's static table is RFC 9204 Appendix A, entry by entry; `lookup_field` is total.
#[kani::proof]
#[kani::unwind(101)]
pub fn p_qpack_static_table_is_rfc9204() {
    let mut i = 0;
    while i < 99 {
        let (k, v) = StaticTable::lookup_field(i).unwrap();
        assert!(str_eq(k, spec::QPACK_STATIC[i].0));
        assert!(str_eq(v, spec::QPACK_STATIC[i].1));
        i += 1;
    }
    let j: usize = kani::any();
    assert!(StaticTable::lookup_field(j).is_some() == (j < 99));
}

fn check_lookup(k: &str, v: &str, expect_found: bool) {
    match StaticTable::lookup_index(k, v) {
        Some(LookupIndexFound::KeyValue(ix)) => {
            assert!(expect_found);
            assert!(ix < 99 && str_eq(spec::QPACK_STATIC[ix].0, k) && str_eq(spec::QPACK_STATIC[ix].1, v));
        }
        Some(LookupIndexFound::KeyOnly(ix)) => {
            assert!(expect_found);
            assert!(ix < 99 && str_eq(spec::QPACK_STATIC[ix].0, k));
        }
        None => { assert!(!expect_found); }
    }
}

/// `lookup_index` on the fields a WebTransport request/response carries (and absent names): the
/// index returned names an RFC 9204 row with that field name, `KeyValue` only if the value matches
/// too, `None` iff the name is absent - so the encoder's static references denote the field being
/// encoded. Bounded: this list of names, not all strings.
#[kani::proof]
#[kani::unwind(101)]
pub fn p_qpack_lookup_index_sound() {
    check_lookup(":method", "CONNECT", true);
    check_lookup(":scheme", "https", true);
    check_lookup(":authority", "example.org:4433", true);
    check_lookup(":path", "/", true);
    check_lookup(":path", "/wt?x=1", true);
    check_lookup(":status", "200", true);
    check_lookup(":status", "404", true);
    check_lookup(":status", "429", true);
    check_lookup("origin", "https://example.org", true);
    check_lookup("user-agent", "x", true);
    check_lookup("x-frame-options", "sameorigin", true);
    // values that differ from the table's spelling only by letter case are NOT exact hits
    check_lookup(":method", "connect", true);
    check_lookup("access-control-allow-credentials", "false", true);
    check_lookup("x-frame-options", "DENY", true);
    check_lookup(":protocol", "webtransport", false);
    check_lookup("x-not-in-table", "", false);
    check_lookup("", "", false);
}

/// Quick slice of the above: a `KeyValue` (indexed field line) answer requires the value to match
/// the table row EXACTLY - values that differ only by letter case are name references.
#[kani::proof]
#[kani::unwind(101)]
pub fn p_qpack_lookup_index_exact_value() {
    check_lookup(":method", "connect", true);
    check_lookup("x-frame-options", "DENY", true);
    check_lookup(":status", "200", true);
}

// (`Encoder::encode` itself does not terminate in CBMC even for one concrete field - Vec growth +
// iterator chain + Huffman tables; it is verified by the Verus unit `qpack_encode`.)
