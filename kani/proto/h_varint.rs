//! Variable-length integers (RFC 9000 §16): contracts on `VarInt::*` and on the four
//! `BytesReader`/`BytesWriter` impls (real `octets` code included, not stubbed).
//! All harnesses are loop-free over full-domain symbolic inputs or bounded by the operand width
//! (≤ 8 bytes) with unwinding assertions on ⇒ complete.
#![cfg(not(verif_skip_h_varint))] // lets the check driver drop this harness module if it no longer compiles against changed code
use crate::bytes::{BufferReader, BufferWriter, BytesReader, BytesWriter};
use crate::varint::VarInt;

use super::arb::*;
use super::spec;
use super::util::*;

// ---- in-place contracts on the real functions -------------------------------------------------

#[kani::proof_for_contract(VarInt::try_from_u64)]
pub fn c_varint_try_from_u64() {
    let v: u64 = kani::any();
    let r = VarInt::try_from_u64(v);
    kani::cover!(r.is_ok());
    kani::cover!(r.is_err());
}

#[kani::proof_for_contract(VarInt::size)]
pub fn c_varint_size() {
    let v: VarInt = kani::any();
    let n = v.size();
    kani::cover!(n == 1);
    kani::cover!(n == 2);
    kani::cover!(n == 4);
    kani::cover!(n == 8);
}

#[kani::proof_for_contract(VarInt::parse_size)]
pub fn c_varint_parse_size() {
    let b: u8 = kani::any();
    let n = VarInt::parse_size(b);
    kani::cover!(n == 8);
}

/// size() is the shortest form, MAX/MIN constants are the RFC bounds, conversions keep the value.
#[kani::proof]
pub fn p_varint_consts_and_conversions() {
    assert!(VarInt::MAX.into_inner() == spec::VARINT_MAX);
    assert!(VarInt::MIN.into_inner() == 0);
    assert!(VarInt::MAX_SIZE == 8);
    let a: u8 = kani::any();
    let b: u16 = kani::any();
    let c: u32 = kani::any();
    assert!(VarInt::from(a).into_inner() == a as u64);
    assert!(VarInt::from(b).into_inner() == b as u64);
    assert!(VarInt::from(c).into_inner() == c as u64);
    assert!(VarInt::from_u32(c).into_inner() == c as u64);
    let d: u64 = kani::any();
    match VarInt::try_from(d) {
        Ok(v) => {
            assert!(d <= spec::VARINT_MAX);
            assert!(u64::from(v) == d);
            // shortest form: no shorter length can hold it
            let n = v.size();
            assert!(n == 1 || d >= (1u64 << if n == 2 { 6 } else if n == 4 { 14 } else { 30 }));
        }
        Err(_) => { assert!(d > spec::VARINT_MAX); }
    }
}

// ---- encoder: BufferWriter::put_varint --------------------------------------------------------

/// For all v < 2^62 and all capacities 0..=9: Ok iff capacity ≥ size(v); on Ok exactly size(v)
/// bytes equal to the RFC encoding are written and nothing after them; on Err nothing is written
/// and the offset does not move.
#[kani::proof]
#[kani::unwind(10)]
pub fn p_buffer_writer_put_varint() {
    let v: VarInt = kani::any();
    let cap: usize = kani::any();
    kani::assume(cap <= 9);
    let init: [u8; 9] = kani::any();
    let mut buf = init;
    let mut w = BufferWriter::new(&mut buf[..cap]);
    let r = w.put_varint(v);
    let n = spec::varint_len(v.into_inner());
    let off = w.offset();
    let capacity_after = w.capacity();
    match r {
        Ok(()) => {
            assert!(cap >= n);
            assert!(off == n);
            assert!(off == v.size());
            assert!(capacity_after == cap - n);
        }
        Err(_) => {
            assert!(cap < n);
            assert!(off == 0);
            assert!(capacity_after == cap);
        }
    }
    let i: usize = kani::any();
    kani::assume(i < 9);
    if r.is_ok() && i < n {
        assert!(buf[i] == spec::varint_byte(v.into_inner(), i));
    } else {
        assert!(buf[i] == init[i]);
    }
    kani::cover!(r.is_ok() && n == 8);
    kani::cover!(r.is_err() && n == 8 && cap == 7);
    kani::cover!(r.is_ok() && n == 1 && cap == 1);
}

/// put_bytes: Ok iff capacity ≥ len; copies exactly; untouched on Err.
#[kani::proof]
#[kani::unwind(10)]
pub fn p_buffer_writer_put_bytes() {
    let cap: usize = kani::any();
    kani::assume(cap <= 8);
    let len: usize = kani::any();
    kani::assume(len <= 8);
    let src: [u8; 8] = kani::any();
    let init: [u8; 8] = kani::any();
    let mut buf = init;
    let mut w = BufferWriter::new(&mut buf[..cap]);
    let r = w.put_bytes(&src[..len]);
    let off = w.offset();
    assert!(r.is_ok() == (len <= cap));
    assert!(off == if r.is_ok() { len } else { 0 });
    let i: usize = kani::any();
    kani::assume(i < 8);
    if r.is_ok() && i < len {
        assert!(buf[i] == src[i]);
    } else {
        assert!(buf[i] == init[i]);
    }
    kani::cover!(r.is_err());
    kani::cover!(r.is_ok() && len == 8);
}

// ---- decoder: BufferReader::get_varint and <&[u8]>::get_varint --------------------------------

/// For every byte string b (|b| ≤ 9, content arbitrary): `Some(v)` iff |b| ≥ len(b[0]); then
/// v == RFC value, v < 2^62, offset advanced by exactly len(b[0]); `None` leaves the offset.
#[kani::proof]
#[kani::unwind(10)]
pub fn p_buffer_reader_get_varint() {
    let buf: [u8; 9] = kani::any();
    let len: usize = kani::any();
    kani::assume(len <= 9);
    let mut r = BufferReader::new(&buf[..len]);
    let res = r.get_varint();
    match res {
        Some(v) => {
            let n = spec::varint_len_from_first(buf[0]);
            assert!(len >= n);
            assert!(v.into_inner() == spec::varint_value(&buf, n));
            assert!(v.into_inner() <= spec::VARINT_MAX);
            assert!(r.offset() == n);
            assert!(r.capacity() == len - n);
        }
        None => {
            assert!(len == 0 || len < spec::varint_len_from_first(buf[0]));
            assert!(r.offset() == 0);
            assert!(r.capacity() == len);
        }
    }
    kani::cover!(res.is_some() && r.offset() == 8);
    kani::cover!(res.is_none() && len == 7);
}

#[kani::proof]
#[kani::unwind(10)]
pub fn p_slice_get_varint() {
    let buf: [u8; 9] = kani::any();
    let len: usize = kani::any();
    kani::assume(len <= 9);
    let mut s: &[u8] = &buf[..len];
    let res = s.get_varint();
    match res {
        Some(v) => {
            let n = spec::varint_len_from_first(buf[0]);
            assert!(len >= n);
            assert!(v.into_inner() == spec::varint_value(&buf, n));
            assert!(v.into_inner() <= spec::VARINT_MAX);
            assert!(s.len() == len - n);
            assert!(s.as_ptr() == buf[n..].as_ptr());
        }
        None => {
            assert!(len == 0 || len < spec::varint_len_from_first(buf[0]));
            assert!(s.len() == len);
            assert!(s.as_ptr() == buf.as_ptr());
        }
    }
    kani::cover!(res.is_some() && s.len() == 1);
    kani::cover!(res.is_none() && len == 3);
}

/// get_bytes on both readers: `Some(slice)` iff len ≤ remaining; slice aliases the input at the
/// old offset; offset advanced by len; `None` leaves the offset.
#[kani::proof]
#[kani::unwind(10)]
pub fn p_readers_get_bytes() {
    let buf: [u8; 8] = kani::any();
    let total: usize = kani::any();
    kani::assume(total <= 8);
    let pre: usize = kani::any();
    kani::assume(pre <= total);
    let want: usize = kani::any();

    let mut r = BufferReader::new(&buf[..total]);
    r.skip(pre).unwrap();
    let res = r.get_bytes(want);
    match res {
        Some(b) => {
            assert!(want <= total - pre);
            assert!(b.len() == want);
            assert!(b.as_ptr() == buf[pre..].as_ptr());
            assert!(r.offset() == pre + want);
        }
        None => {
            assert!(want > total - pre);
            assert!(r.offset() == pre);
        }
    }

    let mut s: &[u8] = &buf[pre..total];
    let res2 = s.get_bytes(want);
    match res2 {
        Some(b) => {
            assert!(want <= total - pre);
            assert!(b.len() == want);
            assert!(b.as_ptr() == buf[pre..].as_ptr());
            assert!(s.len() == total - pre - want);
        }
        None => {
            assert!(want > total - pre);
            assert!(s.len() == total - pre);
        }
    }
    kani::cover!(res.is_some() && want == 8);
    kani::cover!(res.is_none());
}

/// skip / child / commit: skip is all-or-nothing; a committed child advances the parent by the
/// child's offset, a dropped child leaves the parent unchanged.
#[kani::proof]
#[kani::unwind(10)]
pub fn p_buffer_reader_child() {
    let buf: [u8; 8] = kani::any();
    let total: usize = kani::any();
    kani::assume(total <= 8);
    let pre: usize = kani::any();
    let mut r = BufferReader::new(&buf[..total]);
    let sk = r.skip(pre);
    assert!(sk.is_ok() == (pre <= total));
    let base = if sk.is_ok() { pre } else { 0 };
    assert!(r.offset() == base);
    assert!(r.buffer_remaining().len() == total - base);

    let adv: usize = kani::any();
    let commit: bool = kani::any();
    {
        let mut child = r.child();
        assert!(child.offset() == 0);
        assert!(child.capacity() == total - base);
        let ok = child.skip(adv).is_ok();
        assert!(ok == (adv <= total - base));
        if commit {
            child.commit();
        }
    }
    if commit && adv <= total - base {
        assert!(r.offset() == base + adv);
    } else {
        assert!(r.offset() == base);
    }
    kani::cover!(commit && adv > 0 && adv <= total - base);
    kani::cover!(!commit);
}

// ---- round trips through all impls ------------------------------------------------------------

/// encode with the crate, decode with the crate and with the reference: for all v < 2^62,
/// decode(encode(v)) == v consuming exactly size(v) bytes and ignoring a symbolic tail.
#[kani::proof]
#[kani::unwind(10)]
pub fn p_varint_roundtrip_buffer() {
    let v: VarInt = kani::any();
    let mut buf: [u8; 10] = kani::any();
    let n = {
        let mut w = BufferWriter::new(&mut buf);
        w.put_varint(v).unwrap();
        w.offset()
    };
    assert!(n == v.size());
    assert!(spec::varint_value(&buf, spec::varint_len_from_first(buf[0])) == v.into_inner());
    let mut r = BufferReader::new(&buf);
    let back = r.get_varint().unwrap();
    assert!(back == v);
    assert!(r.offset() == n);
    let mut s: &[u8] = &buf;
    let back2 = s.get_varint().unwrap();
    assert!(back2 == v);
    assert!(s.len() == 10 - n);
    kani::cover!(n == 8);
    kani::cover!(n == 1);
}

/// Vec<u8> as BytesWriter: appends exactly the RFC encoding, keeps the existing prefix.
#[kani::proof]
#[kani::unwind(10)]
pub fn p_vec_put_varint() {
    let v: VarInt = kani::any();
    let p0: u8 = kani::any();
    let mut out: Vec<u8> = Vec::with_capacity(16);
    out.push(p0);
    out.put_varint(v).unwrap();
    let n = spec::varint_len(v.into_inner());
    assert!(out.len() == 1 + n);
    assert!(out[0] == p0);
    let i: usize = kani::any();
    kani::assume(i < n);
    assert!(out[1 + i] == spec::varint_byte(v.into_inner(), i));
    kani::cover!(n == 4);
}

/// Vec<u8> as BytesWriter: put_bytes appends exactly the given bytes and never fails.
#[kani::proof]
#[kani::unwind(10)]
pub fn p_vec_put_bytes() {
    let src: [u8; 6] = kani::any();
    let len: usize = kani::any();
    kani::assume(len <= 6);
    let p0: u8 = kani::any();
    let mut out: Vec<u8> = Vec::with_capacity(16);
    out.push(p0);
    assert!(out.put_bytes(&src[..len]).is_ok());
    assert!(out.len() == 1 + len && out[0] == p0);
    let i: usize = kani::any();
    if i < len {
        assert!(out[1 + i] == src[i]);
    }
}
