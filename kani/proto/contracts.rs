//! Predicates used by the in-place contracts (`#[cfg_attr(kani, kani::ensures(..))]`) on the real
//! functions. They relate crate types to the registry constants of `spec.rs`.
use crate::error::ErrorCode;
use crate::frame::FrameKind;
use crate::settings::SettingId;
use crate::stream_header::StreamKind;

use super::oracle::grease;
use super::spec::is_grease as exact_grease;
use super::spec;

pub fn frame_type_known(id: u64) -> bool {
    id == spec::frame_type::DATA
        || id == spec::frame_type::HEADERS
        || id == spec::frame_type::SETTINGS
        || id == spec::frame_type::WT_STREAM
}

/// Type invariant of `FrameKind`: an `Exercise` id is a GREASE value.
pub fn frame_kind_valid(k: &FrameKind) -> bool {
    match k {
        FrameKind::Exercise(x) => grease(x.into_inner()),
        _ => true,
    }
}

/// Exact-arithmetic version (used by the in-place contracts; no mutable statics).
pub fn frame_kind_valid_exact(k: &FrameKind) -> bool {
    match k {
        FrameKind::Exercise(x) => exact_grease(x.into_inner()),
        _ => true,
    }
}

/// `FrameKind::parse(id) == r` per RFC 9114 §7.2 + WT draft: the four known types, GREASE kept
/// with its id, anything else unknown.
pub fn frame_kind_parse_post(id: u64, r: &Option<FrameKind>) -> bool {
    match r {
        Some(FrameKind::Data) => id == spec::frame_type::DATA,
        Some(FrameKind::Headers) => id == spec::frame_type::HEADERS,
        Some(FrameKind::Settings) => id == spec::frame_type::SETTINGS,
        Some(FrameKind::WebTransport) => id == spec::frame_type::WT_STREAM,
        Some(FrameKind::Exercise(x)) => grease(id) && x.into_inner() == id && !frame_type_known(id),
        None => !frame_type_known(id) && !grease(id),
    }
}

/// Exact-arithmetic version (used by the in-place contracts; no mutable statics).
pub fn frame_kind_parse_post_exact(id: u64, r: &Option<FrameKind>) -> bool {
    match r {
        Some(FrameKind::Data) => id == spec::frame_type::DATA,
        Some(FrameKind::Headers) => id == spec::frame_type::HEADERS,
        Some(FrameKind::Settings) => id == spec::frame_type::SETTINGS,
        Some(FrameKind::WebTransport) => id == spec::frame_type::WT_STREAM,
        Some(FrameKind::Exercise(x)) => exact_grease(id) && x.into_inner() == id && !frame_type_known(id),
        None => !frame_type_known(id) && !exact_grease(id),
    }
}

pub fn frame_kind_code(k: &FrameKind) -> u64 {
    match k {
        FrameKind::Data => spec::frame_type::DATA,
        FrameKind::Headers => spec::frame_type::HEADERS,
        FrameKind::Settings => spec::frame_type::SETTINGS,
        FrameKind::WebTransport => spec::frame_type::WT_STREAM,
        FrameKind::Exercise(x) => x.into_inner(),
    }
}

pub fn stream_type_known(id: u64) -> bool {
    id == spec::stream_type::CONTROL
        || id == spec::stream_type::QPACK_ENCODER
        || id == spec::stream_type::QPACK_DECODER
        || id == spec::stream_type::WT_UNI
}

pub fn stream_kind_valid(k: &StreamKind) -> bool {
    match k {
        StreamKind::Exercise(x) => grease(x.into_inner()),
        _ => true,
    }
}

pub fn stream_kind_valid_exact(k: &StreamKind) -> bool {
    match k {
        StreamKind::Exercise(x) => exact_grease(x.into_inner()),
        _ => true,
    }
}

pub fn stream_kind_parse_post(id: u64, r: &Option<StreamKind>) -> bool {
    match r {
        Some(StreamKind::Control) => id == spec::stream_type::CONTROL,
        Some(StreamKind::QPackEncoder) => id == spec::stream_type::QPACK_ENCODER,
        Some(StreamKind::QPackDecoder) => id == spec::stream_type::QPACK_DECODER,
        Some(StreamKind::WebTransport) => id == spec::stream_type::WT_UNI,
        Some(StreamKind::Exercise(x)) => grease(id) && x.into_inner() == id && !stream_type_known(id),
        None => !stream_type_known(id) && !grease(id),
    }
}

pub fn stream_kind_parse_post_exact(id: u64, r: &Option<StreamKind>) -> bool {
    match r {
        Some(StreamKind::Control) => id == spec::stream_type::CONTROL,
        Some(StreamKind::QPackEncoder) => id == spec::stream_type::QPACK_ENCODER,
        Some(StreamKind::QPackDecoder) => id == spec::stream_type::QPACK_DECODER,
        Some(StreamKind::WebTransport) => id == spec::stream_type::WT_UNI,
        Some(StreamKind::Exercise(x)) => exact_grease(id) && x.into_inner() == id && !stream_type_known(id),
        None => !stream_type_known(id) && !exact_grease(id),
    }
}

pub fn stream_kind_code(k: &StreamKind) -> u64 {
    match k {
        StreamKind::Control => spec::stream_type::CONTROL,
        StreamKind::QPackEncoder => spec::stream_type::QPACK_ENCODER,
        StreamKind::QPackDecoder => spec::stream_type::QPACK_DECODER,
        StreamKind::WebTransport => spec::stream_type::WT_UNI,
        StreamKind::Exercise(x) => x.into_inner(),
    }
}

pub fn setting_known(id: u64) -> bool {
    use spec::setting::*;
    id == QPACK_MAX_TABLE_CAPACITY
        || id == MAX_FIELD_SECTION_SIZE
        || id == QPACK_BLOCKED_STREAMS
        || id == ENABLE_CONNECT_PROTOCOL
        || id == H3_DATAGRAM
        || id == ENABLE_WEBTRANSPORT
        || id == WEBTRANSPORT_MAX_SESSIONS
}

pub fn setting_id_valid(k: &SettingId) -> bool {
    match k {
        SettingId::Exercise(x) => grease(x.into_inner()) && !spec::setting::is_reserved(x.into_inner()),
        _ => true,
    }
}

pub fn setting_id_valid_exact(k: &SettingId) -> bool {
    match k {
        SettingId::Exercise(x) => exact_grease(x.into_inner()) && !spec::setting::is_reserved(x.into_inner()),
        _ => true,
    }
}

/// `SettingId::parse(id)`: `Err(true)` = reserved (HTTP/2 ids, RFC 9114 §7.2.4.1), `Err(false)` =
/// unknown (must be ignored), GREASE kept with its id.
pub fn setting_id_parse_post(id: u64, r: Result<SettingId, bool>) -> bool {
    use spec::setting::*;
    match r {
        Err(true) => is_reserved(id),
        Err(false) => !is_reserved(id) && !grease(id) && !setting_known(id),
        Ok(SettingId::Exercise(x)) => !is_reserved(id) && grease(id) && x.into_inner() == id,
        Ok(SettingId::QPackMaxTableCapacity) => id == QPACK_MAX_TABLE_CAPACITY,
        Ok(SettingId::MaxFieldSectionSize) => id == MAX_FIELD_SECTION_SIZE,
        Ok(SettingId::QPackBlockedStreams) => id == QPACK_BLOCKED_STREAMS,
        Ok(SettingId::EnableConnectProtocol) => id == ENABLE_CONNECT_PROTOCOL,
        Ok(SettingId::H3Datagram) => id == H3_DATAGRAM,
        Ok(SettingId::EnableWebTransport) => id == ENABLE_WEBTRANSPORT,
        Ok(SettingId::WebTransportMaxSessions) => id == WEBTRANSPORT_MAX_SESSIONS,
    }
}

/// Exact-arithmetic version (used by the in-place contracts; no mutable statics).
pub fn setting_id_parse_post_exact(id: u64, r: Result<SettingId, bool>) -> bool {
    use spec::setting::*;
    match r {
        Err(true) => is_reserved(id),
        Err(false) => !is_reserved(id) && !exact_grease(id) && !setting_known(id),
        Ok(SettingId::Exercise(x)) => !is_reserved(id) && exact_grease(id) && x.into_inner() == id,
        Ok(SettingId::QPackMaxTableCapacity) => id == QPACK_MAX_TABLE_CAPACITY,
        Ok(SettingId::MaxFieldSectionSize) => id == MAX_FIELD_SECTION_SIZE,
        Ok(SettingId::QPackBlockedStreams) => id == QPACK_BLOCKED_STREAMS,
        Ok(SettingId::EnableConnectProtocol) => id == ENABLE_CONNECT_PROTOCOL,
        Ok(SettingId::H3Datagram) => id == H3_DATAGRAM,
        Ok(SettingId::EnableWebTransport) => id == ENABLE_WEBTRANSPORT,
        Ok(SettingId::WebTransportMaxSessions) => id == WEBTRANSPORT_MAX_SESSIONS,
    }
}

/// IANA / draft registry value of every error the endpoint can put on the wire.
pub fn error_code_registry(e: ErrorCode) -> u64 {
    use spec::error_code::*;
    match e {
        ErrorCode::Datagram => H3_DATAGRAM_ERROR,
        ErrorCode::NoError => H3_NO_ERROR,
        ErrorCode::StreamCreation => H3_STREAM_CREATION_ERROR,
        ErrorCode::ClosedCriticalStream => H3_CLOSED_CRITICAL_STREAM,
        ErrorCode::FrameUnexpected => H3_FRAME_UNEXPECTED,
        ErrorCode::Frame => H3_FRAME_ERROR,
        ErrorCode::ExcessiveLoad => H3_EXCESSIVE_LOAD,
        ErrorCode::Id => H3_ID_ERROR,
        ErrorCode::Settings => H3_SETTINGS_ERROR,
        ErrorCode::MissingSettings => H3_MISSING_SETTINGS,
        ErrorCode::RequestRejected => H3_REQUEST_REJECTED,
        ErrorCode::Message => H3_MESSAGE_ERROR,
        ErrorCode::Decompression => QPACK_DECOMPRESSION_FAILED,
        ErrorCode::BufferedStreamRejected => WEBTRANSPORT_BUFFERED_STREAM_REJECTED,
        ErrorCode::SessionGone => WEBTRANSPORT_SESSION_GONE,
    }
}

// ---- reference frame / stream-header parser (RFC 9114 §7.1, §6.2; WT draft §4) -----------------

/// Outcome the specification prescribes for a byte string offered to the frame decoder.
#[derive(Copy, Clone, PartialEq, Eq, Debug)]
pub enum RefFrame {
    /// not a complete frame yet
    NeedMore,
    /// complete frame of a type the endpoint does not understand; must be skipped whole
    Unknown { consumed: usize },
    /// WT signal naming a stream that is not client-initiated bidirectional
    InvalidSessionId,
    /// payload above the endpoint's parse limit
    TooBig,
    /// a frame: type id, session id (WT signal only), payload location, total consumption
    Frame { kind: u64, session: Option<u64>, payload_off: usize, payload_len: usize, consumed: usize },
}

/// Reference parse of one frame at `buf[off..len]`.
pub fn ref_frame<const N: usize>(buf: &[u8; N], off: usize, len: usize) -> RefFrame {
    if off >= len {
        return RefFrame::NeedMore;
    }
    let n1 = spec::varint_len_from_first(buf[off]);
    if len - off < n1 {
        return RefFrame::NeedMore;
    }
    let t = spec::varint_value(&buf[off..], n1);
    let p2 = off + n1;
    if p2 >= len {
        return RefFrame::NeedMore;
    }
    let n2 = spec::varint_len_from_first(buf[p2]);
    if len - p2 < n2 {
        return RefFrame::NeedMore;
    }
    let v2 = spec::varint_value(&buf[p2..], n2);
    if t == spec::frame_type::WT_STREAM {
        if v2 % 4 != 0 {
            return RefFrame::InvalidSessionId;
        }
        return RefFrame::Frame { kind: t, session: Some(v2), payload_off: p2 + n2, payload_len: 0, consumed: n1 + n2 };
    }
    if v2 > spec::MAX_PARSE_PAYLOAD as u64 {
        return RefFrame::TooBig;
    }
    let l = v2 as usize;
    if len - (p2 + n2) < l {
        return RefFrame::NeedMore;
    }
    if frame_type_known(t) || grease(t) {
        RefFrame::Frame { kind: t, session: None, payload_off: p2 + n2, payload_len: l, consumed: n1 + n2 + l }
    } else {
        RefFrame::Unknown { consumed: n1 + n2 + l }
    }
}

#[derive(Copy, Clone, PartialEq, Eq, Debug)]
pub enum RefHeader {
    NeedMore,
    Unknown,
    InvalidSessionId,
    Header { kind: u64, session: Option<u64>, consumed: usize },
}

/// Reference parse of a unidirectional stream header at the start of `buf[..len]`.
pub fn ref_stream_header<const N: usize>(buf: &[u8; N], len: usize) -> RefHeader {
    if len == 0 {
        return RefHeader::NeedMore;
    }
    let n1 = spec::varint_len_from_first(buf[0]);
    if len < n1 {
        return RefHeader::NeedMore;
    }
    let t = spec::varint_value(buf, n1);
    if !stream_type_known(t) && !grease(t) {
        return RefHeader::Unknown;
    }
    if t != spec::stream_type::WT_UNI {
        return RefHeader::Header { kind: t, session: None, consumed: n1 };
    }
    if n1 >= len {
        return RefHeader::NeedMore;
    }
    let n2 = spec::varint_len_from_first(buf[n1]);
    if len - n1 < n2 {
        return RefHeader::NeedMore;
    }
    let sid = spec::varint_value(&buf[n1..], n2);
    if sid % 4 != 0 {
        return RefHeader::InvalidSessionId;
    }
    RefHeader::Header { kind: t, session: Some(sid), consumed: n1 + n2 }
}
