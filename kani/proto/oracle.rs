//! GREASE predicate as an *uninterpreted function* (Ackermann encoding).
//!
//! `id >= 0x21 && (id - 0x21) % 0x1f == 0` on 62-bit symbolic ids makes CBMC prove the equivalence
//! of several 64-bit divider circuits (10 s per pair, minutes when a harness has four of them).
//! Harnesses that are not about the arithmetic therefore run in "oracle mode":
//!   * the crate's `FrameKind/StreamKind::is_id_exercise`, `SettingId::is_exercise` are replaced
//!     (`kani::stub`) by `grease_varint`, and the reference definitions in contracts.rs call
//!     `grease` too;
//!   * `grease` returns an arbitrary but *functional* answer: the same id always gets the same
//!     answer (table of the ids queried so far), nothing else is assumed about it.
//! Such a harness proves its claim for EVERY predicate G in place of the GREASE test, hence in
//! particular for the real one. That the three crate functions ARE the RFC predicate
//! (`spec::is_grease`) for all 2^62 ids is proved separately by their in-place contracts
//! (c_framekind_is_id_exercise, c_streamkind_is_id_exercise, c_settingid_is_exercise).
//! Outside oracle mode `grease` is `spec::is_grease`.
use crate::varint::VarInt;

use super::spec;

const SLOTS: usize = 6;
static mut ON: bool = false;
static mut IDS: [u64; SLOTS] = [0; SLOTS];
static mut VALS: [bool; SLOTS] = [false; SLOTS];
static mut N: usize = 0;

/// Switches the current harness to oracle mode.
pub fn enable() {
    unsafe {
        ON = true;
        N = 0;
    }
}

pub fn grease(id: u64) -> bool {
    // Native counterexample replay (`cargo kani playback`, cfg(test)): stubs are not applied there,
    // so the reference side must use the real predicate too and must not consume solver values.
    // (Harnesses draw all their own symbolic inputs before the first oracle call, so the oracle's
    // values sit at the end of the solver's list and are simply left unused.)
    if cfg!(test) {
        return spec::is_grease(id);
    }
    unsafe {
        if !ON {
            return spec::is_grease(id);
        }
        // (loop-free lookup so that harnesses can use small unwinding bounds)
        if N > 0 && IDS[0] == id {
            return VALS[0];
        }
        if N > 1 && IDS[1] == id {
            return VALS[1];
        }
        if N > 2 && IDS[2] == id {
            return VALS[2];
        }
        if N > 3 && IDS[3] == id {
            return VALS[3];
        }
        if N > 4 && IDS[4] == id {
            return VALS[4];
        }
        if N > 5 && IDS[5] == id {
            return VALS[5];
        }
        assert!(N < SLOTS, "oracle table too small for this harness");
        let r: bool = kani::any();
        // the only facts assumed about G; proved for the real predicate by `p_grease_facts`
        kani::assume(!r || !fixed_registry_id(id));
        // one-byte ids: agree with the real predicate (8-bit modulo is cheap), so that small
        // counterexamples replay faithfully on the real code
        kani::assume(id >= 0x100 || r == spec::is_grease(id));
        IDS[N] = id;
        VALS[N] = r;
        N += 1;
        r
    }
}

/// Ids with a fixed meaning in the registries (frame types, stream types, setting ids incl. the
/// reserved HTTP/2 ones, capsule type): none of them is a GREASE value.
pub fn fixed_registry_id(id: u64) -> bool {
    use spec::{frame_type as f, setting as s, stream_type as t};
    id == f::DATA || id == f::HEADERS || id == f::SETTINGS || id == f::WT_STREAM
        || id == t::CONTROL || id == t::QPACK_ENCODER || id == t::QPACK_DECODER || id == t::WT_UNI
        || s::is_reserved(id)
        || id == s::QPACK_MAX_TABLE_CAPACITY || id == s::MAX_FIELD_SECTION_SIZE || id == s::QPACK_BLOCKED_STREAMS
        || id == s::ENABLE_CONNECT_PROTOCOL || id == s::H3_DATAGRAM || id == s::ENABLE_WEBTRANSPORT
        || id == s::WEBTRANSPORT_MAX_SESSIONS
        || id == spec::CAPSULE_CLOSE_WT_SESSION
}

/// The facts the oracle assumes hold for the real RFC predicate (all 2^64 ids; the disjunction is
/// over 20 constants, so this is cheap).
#[kani::proof]
pub fn p_grease_facts() {
    let id: u64 = kani::any();
    assert!(!(spec::is_grease(id) && fixed_registry_id(id)));
    assert!(!spec::is_grease(id) || id >= 0x21);
}

/// Stub body for `FrameKind::is_id_exercise`, `StreamKind::is_id_exercise`, `SettingId::is_exercise`.
pub fn grease_varint(id: VarInt) -> bool {
    grease(id.into_inner())
}
