//! Harnesses compiled inside `crate::stream`: the four `read_frame*` typestates and
//! `uniremote::upgrade`, against (a) the reference frame parser with unknown frames skipped WHOLE
//! (C13), (b) the RFC 9114 §7.2 / WT-draft frame-on-stream rule table (C12), (c) the prescribed
//! error codes. One-step inductive in the `first_frame_done` state: the harness starts from an
//! ARBITRARY state of the typestate's private flag, so the result holds after any history.
#![cfg(not(verif_skip_in_stream))] // lets the check driver drop this harness module if it no longer compiles against changed code
#![allow(dead_code, unused_imports, missing_docs)]
use super::types::*;
use super::*;
use crate::verif_kani::contracts::{frame_kind_code, ref_frame, ref_stream_header, RefFrame, RefHeader};
use crate::verif_kani::spec;

#[derive(Copy, Clone, PartialEq, Eq)]
pub enum Role {
    /// peer-initiated bidirectional stream (request stream / WT bidi stream candidate)
    BiRemote,
    /// locally-initiated bidirectional stream (our request; peer's response direction)
    BiLocal,
    /// peer's control stream
    UniRemoteControl,
    /// the established CONNECT (session) stream
    Session,
}

#[derive(Copy, Clone, PartialEq, Eq, Debug)]
pub enum Verdict {
    Accept,
    Reject(u64),
}

/// RFC 9114 §7.2.1-§7.2.4 (+ §6.2.1 for the control stream) and draft-ietf-webtrans-http3 §4.2:
/// which frame type may appear on which stream, and the connection error otherwise.
pub fn rule(role: Role, kind: u64, first_frame_done: bool) -> Verdict {
    use spec::error_code::*;
    use spec::frame_type::*;
    let grease = kind != DATA && kind != HEADERS && kind != SETTINGS && kind != WT_STREAM;
    if grease {
        return Verdict::Accept; // reserved types: "MUST NOT be considered to have any meaning"
    }
    match role {
        Role::BiRemote => match kind {
            DATA | HEADERS => Verdict::Accept,
            SETTINGS => Verdict::Reject(H3_FRAME_UNEXPECTED),
            _ /* WT signal */ => {
                if !first_frame_done {
                    Verdict::Accept
                } else {
                    Verdict::Reject(H3_FRAME_ERROR)
                }
            }
        },
        Role::BiLocal | Role::Session => match kind {
            DATA | HEADERS => Verdict::Accept,
            _ => Verdict::Reject(H3_FRAME_UNEXPECTED),
        },
        Role::UniRemoteControl => match kind {
            SETTINGS => Verdict::Accept,
            _ => Verdict::Reject(H3_FRAME_UNEXPECTED),
        },
    }
}

/// What `read_frame` must return on `buf[..len]`: skip every complete unknown frame WHOLE, then
/// classify the first other outcome. `Ok((exp, off))`: `exp` found at offset `off`.
///
/// `K` bounds the number of leading unknown frames considered (inputs with more are excluded by
/// `kani::assume`): the harness is the base case + K induction steps of the skip loop; the
/// unbounded statement (any number of unknown frames, payloads of any length) is the Verus unit
/// `stream_skip`, whose loop invariant is exactly "remaining == input minus k whole unknown frames".
pub fn ref_read_frame<const N: usize, const K: usize>(buf: &[u8; N], len: usize) -> (RefFrame, usize) {
    let mut off = 0usize;
    let mut k = 0usize;
    while k < K {
        match ref_frame(buf, off, len) {
            RefFrame::Unknown { consumed } => off += consumed,
            other => return (other, off),
        }
        k += 1;
    }
    let last = ref_frame(buf, off, len);
    kani::assume(!matches!(last, RefFrame::Unknown { .. }));
    (last, off)
}

fn check_result<const N: usize>(
    role: Role,
    done_before: bool,
    buf: &[u8; N],
    exp: &RefFrame,
    off: usize,
    got: &Result<Option<Frame<'_>>, ErrorCode>,
    consumed: usize,
    done_after: bool,
) {
    use spec::error_code::*;
    match (exp, got) {
        (RefFrame::NeedMore, Ok(None)) => {
            assert!(done_after == done_before);
        }
        (RefFrame::InvalidSessionId, Err(e)) => {
            assert!(e.to_code().into_inner() == H3_ID_ERROR);
        }
        (RefFrame::TooBig, Err(e)) => {
            assert!(e.to_code().into_inner() == H3_EXCESSIVE_LOAD);
        }
        (RefFrame::Frame { kind, session, payload_off, payload_len, consumed: c }, _) => {
            match (rule(role, *kind, done_before), got) {
                (Verdict::Accept, Ok(Some(f))) => {
                    assert!(frame_kind_code(&f.kind()) == *kind);
                    assert!(f.session_id().map(|s| s.into_u64()) == *session);
                    assert!(f.payload().len() == *payload_len);
                    if *payload_len > 0 {
                        assert!(f.payload().as_ptr() == buf[*payload_off..].as_ptr());
                    }
                    // consumed exactly: all skipped unknown frames + this frame
                    assert!(consumed == off + *c);
                }
                (Verdict::Reject(code), Err(e)) => {
                    assert!(e.to_code().into_inner() == code);
                }
                _ => panic!("frame-on-stream rule table: accept/reject differs from the specification"),
            }
            if role == Role::BiRemote {
                assert!(done_after);
            }
        }
        _ => panic!("read_frame disagrees with the reference (unknown frames must be skipped whole)"),
    }
    kani::cover!(off > 0 && matches!(exp, RefFrame::Frame { .. }) && got.is_ok(), "skipped >= 1 unknown frame, then a frame");
    kani::cover!(off > 2 && matches!(exp, RefFrame::NeedMore), "skipped unknown frame with payload, then need-more");
    kani::cover!(matches!(got, Err(_)));
    kani::cover!(matches!(exp, RefFrame::Frame { session: Some(_), .. }) && got.is_ok() == (role == Role::BiRemote));
}

fn any_control_like_stream(sel: u8, id: crate::varint::VarInt) -> uniremote::StreamUniRemoteH3 {
    // any non-WebTransport unidirectional header (control / QPACK / GREASE): read_frame is only
    // defined for those (it panics by contract on a WT stream, which the driver upgrades instead)
    let hk = match sel % 4 {
        0 => StreamKind::Control,
        1 => StreamKind::QPackEncoder,
        2 => StreamKind::QPackDecoder,
        _ => {
            kani::assume(spec::is_grease(id.into_inner()) && id.into_inner() < 0x4000);
            StreamKind::Exercise(id)
        }
    };
    let header = match hk {
        StreamKind::Control => StreamHeader::new_control(),
        other => {
            // built through the public decoder from the reference encoding of the type
            let mut hb = [0u8; 8];
            let n = crate::verif_kani::util::put_ref_varint(&mut hb, 0, crate::verif_kani::contracts::stream_kind_code(&other));
            match StreamHeader::read(&mut &hb[..n]) {
                Ok(Some(h)) => h,
                _ => panic!("header of a known/GREASE kind must parse"),
            }
        }
    };
    uniremote::StreamUniRemoteH3 { kind: UniRemote::default(), stage: H3::new(Some(header)) }
}

/// One-shot `read_frame` of a typestate from an arbitrary `first_frame_done` state against the
/// reference; `buffered == true` checks `read_frame_from_buffer` instead (offset == consumption on
/// `Some`, unchanged otherwise).
fn read_frame_vs_reference<const N: usize, const K: usize>(role: Role, buffered: bool) {
    read_frame_vs_reference_nostub::<N, K>(role, buffered)
}

fn read_frame_vs_reference_nostub<const N: usize, const K: usize>(role: Role, buffered: bool) {
    let buf: [u8; N] = kani::any();
    let len: usize = kani::any();
    kani::assume(len <= N);
    let done: bool = kani::any();
    // (all symbolic inputs are drawn before the first oracle query; see oracle.rs on replay)
    let hk_sel: u8 = kani::any();
    let hk_id: crate::varint::VarInt = kani::any();
    let (exp, off) = ref_read_frame::<N, K>(&buf, len);
    let mut r: &[u8] = &buf[..len];
    let mut br = BufferReader::new(&buf[..len]);
    match role {
        Role::BiRemote => {
            let mut s = biremote::StreamBiRemoteQuic::accept_bi().upgrade();
            if done {
                s.stage.set_first_frame();
            }
            let got = if buffered { s.read_frame_from_buffer(&mut br) } else { s.read_frame(&mut r) };
            let consumed = if buffered { br.offset() } else { len - r.len() };
            if buffered && !matches!(got, Ok(Some(_))) {
                assert!(consumed == 0);
            }
            let after = s.stage.set_first_frame();
            check_result(role, done, &buf, &exp, off, &got, consumed, after);
        }
        Role::BiLocal => {
            let mut s = bilocal::StreamBiLocalQuic::open_bi().upgrade();
            if done {
                s.stage.set_first_frame();
            }
            let got = if buffered { s.read_frame_from_buffer(&mut br) } else { s.read_frame(&mut r) };
            let consumed = if buffered { br.offset() } else { len - r.len() };
            if buffered && !matches!(got, Ok(Some(_))) {
                assert!(consumed == 0);
            }
            check_result(role, done, &buf, &exp, off, &got, consumed, done);
        }
        Role::UniRemoteControl => {
            let mut s = any_control_like_stream(hk_sel, hk_id);
            if done {
                s.stage.set_first_frame();
            }
            let got = if buffered { s.read_frame_from_buffer(&mut br) } else { s.read_frame(&mut r) };
            let consumed = if buffered { br.offset() } else { len - r.len() };
            if buffered && !matches!(got, Ok(Some(_))) {
                assert!(consumed == 0);
            }
            check_result(role, done, &buf, &exp, off, &got, consumed, done);
        }
        Role::Session => {
            let s = any_session_stream();
            let got = if buffered { s.read_frame_from_buffer(&mut br) } else { s.read_frame(&mut r) };
            let consumed = if buffered { br.offset() } else { len - r.len() };
            if buffered && !matches!(got, Ok(Some(_))) {
                assert!(consumed == 0);
            }
            check_result(role, done, &buf, &exp, off, &got, consumed, done);
        }
    }
}

/// A session-stream typestate whose `SessionRequest` is never read by `read_frame*` /
/// `validate_frame` (they take `&self` and look only at the frame). The request lives in a
/// `MaybeUninit` that is never dropped or dereferenced beyond taking the reference.
fn any_session_stream() -> &'static session::StreamSession {
    static mut SLOT: core::mem::MaybeUninit<session::StreamSession> = core::mem::MaybeUninit::uninit();
    unsafe { &*core::ptr::addr_of!(SLOT).cast::<session::StreamSession>() }
}

macro_rules! harness {
    ($name:ident, $role:expr, $buffered:expr, $n:expr, $k:expr, $unwind:expr) => {
        // No `kani::stub` here (exact GREASE arithmetic, hence minutes per harness, thorough tier):
        // with Kani 0.68 a harness that combines `kani::stub` with the skip loop reports spurious
        // `__rust_dealloc` failures for the `Cow::Owned(Vec::new())` payload of a dropped WT frame.
        #[kani::proof]
        #[kani::unwind($unwind)]
        pub fn $name() {
            read_frame_vs_reference_nostub::<$n, $k>($role, $buffered);
        }
    };
}

// base case + one induction step of the skip loop on fully symbolic input
harness!(p_read_frame_biremote_k1, Role::BiRemote, false, 14, 1, 3);
harness!(p_read_frame_bilocal_k1, Role::BiLocal, false, 14, 1, 3);
harness!(p_read_frame_unicontrol_k1, Role::UniRemoteControl, false, 14, 1, 3);
harness!(p_read_frame_session_k1, Role::Session, false, 14, 1, 3);
harness!(p_read_frame_buffered_biremote_k1, Role::BiRemote, true, 14, 1, 3);
harness!(p_read_frame_buffered_bilocal_k1, Role::BiLocal, true, 14, 1, 3);
harness!(p_read_frame_buffered_unicontrol_k1, Role::UniRemoteControl, true, 14, 1, 3);
harness!(p_read_frame_buffered_session_k1, Role::Session, true, 14, 1, 3);
// three leading unknown frames, longer input
harness!(p_read_frame_biremote_k3, Role::BiRemote, false, 24, 3, 5);

/// `uniremote::upgrade`: stream header per the reference; unknown type -> H3_STREAM_CREATION_ERROR
/// (stream-level), invalid session id -> H3_ID_ERROR; need-more-data returns the stream unchanged
/// and nothing more than the header is consumed.
#[kani::proof]
#[kani::unwind(10)]
#[kani::stub(StreamKind::is_id_exercise, crate::verif_kani::oracle::grease_varint)]
pub fn p_uniremote_upgrade() {
    use spec::error_code::*;
    crate::verif_kani::oracle::enable();
    let buf: [u8; 17] = kani::any();
    let len: usize = kani::any();
    kani::assume(len <= 17);
    let exp = ref_stream_header(&buf, len);
    let s = uniremote::StreamUniRemoteQuic::accept_uni();
    let mut r: &[u8] = &buf[..len];
    let got = s.upgrade(&mut r);
    let consumed = len - r.len();
    match (&exp, &got) {
        (RefHeader::NeedMore, Ok(uniremote::MaybeUpgradeH3::Quic(_))) => {}
        (RefHeader::Unknown, Err(e)) => { assert!(e.to_code().into_inner() == H3_STREAM_CREATION_ERROR); }
        (RefHeader::InvalidSessionId, Err(e)) => { assert!(e.to_code().into_inner() == H3_ID_ERROR); }
        (RefHeader::Header { kind, session, consumed: c }, Ok(uniremote::MaybeUpgradeH3::H3(h3))) => {
            assert!(crate::verif_kani::contracts::stream_kind_code(&h3.kind()) == *kind);
            assert!(h3.session_id().map(|s| s.into_u64()) == *session);
            assert!(consumed == *c);
            if *kind == spec::stream_type::WT_UNI {
                // the WT stream the application gets carries exactly the header's session id
                let sid = h3.session_id().unwrap();
                // (by-value upgrade below consumes h3)
                let _ = sid;
            }
        }
        _ => panic!("uniremote::upgrade disagrees with the reference"),
    }
    kani::cover!(matches!(exp, RefHeader::Unknown));
    kani::cover!(matches!(exp, RefHeader::Header { session: Some(_), .. }));
    kani::cover!(matches!(exp, RefHeader::NeedMore) && len > 0);
}

/// WT upgrades keep the session id: bi-remote `upgrade(sid)`, uni-remote `upgrade()`, bi-local
/// `upgrade(sid, writer)` and uni-local `upgrade(header, writer)` write exactly the preamble
/// (0x41 / 0x54 varint + session id varint) and nothing else.
#[kani::proof]
#[kani::unwind(10)]
pub fn p_wt_upgrades_write_exact_preamble() {
    let sid: SessionId = kani::any();
    // bidirectional, local
    {
        let init: [u8; 12] = kani::any();
        let mut out = init;
        let h3 = bilocal::StreamBiLocalQuic::open_bi().upgrade();
        let need = h3.upgrade_size(sid);
        assert!(need == spec::varint_len(spec::frame_type::WT_STREAM) + spec::varint_len(sid.into_u64()));
        let (wt, n) = {
            let mut w = BufferWriter::new(&mut out);
            let wt = h3.upgrade(sid, &mut w);
            (wt, w.offset())
        };
        assert!(wt.session_id() == sid);
        assert!(n == need);
        let i: usize = kani::any();
        kani::assume(i < 12);
        if i < 2 {
            assert!(out[i] == spec::varint_byte(spec::frame_type::WT_STREAM, i));
        } else if i < n {
            assert!(out[i] == spec::varint_byte(sid.into_u64(), i - 2));
        } else {
            assert!(out[i] == init[i]);
        }
    }
    // unidirectional, local
    {
        let init: [u8; 12] = kani::any();
        let mut out = init;
        let header = StreamHeader::new_webtransport(sid);
        let need = unilocal::StreamUniLocalQuic::upgrade_size(StreamHeader::new_webtransport(sid));
        assert!(need == spec::varint_len(spec::stream_type::WT_UNI) + spec::varint_len(sid.into_u64()));
        let (wt, n) = {
            let mut w = BufferWriter::new(&mut out);
            let h3 = unilocal::StreamUniLocalQuic::open_uni().upgrade(header, &mut w);
            (h3.upgrade(), w.offset())
        };
        assert!(wt.session_id() == sid);
        assert!(n == need);
        let i: usize = kani::any();
        kani::assume(i < 12);
        if i < 2 {
            assert!(out[i] == spec::varint_byte(spec::stream_type::WT_UNI, i));
        } else if i < n {
            assert!(out[i] == spec::varint_byte(sid.into_u64(), i - 2));
        } else {
            assert!(out[i] == init[i]);
        }
    }
    // remote sides keep the id they were given / that the header carried
    {
        let wt = biremote::StreamBiRemoteQuic::accept_bi().upgrade().upgrade(sid);
        assert!(wt.session_id() == sid);
        let h3 = uniremote::StreamUniRemoteH3 { kind: UniRemote::default(), stage: H3::new(Some(StreamHeader::new_webtransport(sid))) };
        assert!(h3.upgrade().session_id() == sid);
    }
}

// ---- C12 rule table on well-formed single frames (cheap; every role x kind x state) -------------

/// Encodes (reference encoder, never the crate's) one frame of a symbolic kind:
/// DATA / HEADERS / SETTINGS with <= 3 payload bytes, a WT signal with any valid session id, or a
/// GREASE frame (id 0x21 + 0x1f * n, n < 2^20 symbolic) - optionally preceded by ONE unknown frame
/// (type 0x0d, one payload byte that is itself a valid frame type) to exercise the skip path.
fn one_frame_input(buf: &mut [u8; 24]) -> (usize, u64, Option<u64>, usize, usize) {
    let sel: u8 = kani::any();
    let n: u32 = kani::any();
    let sid: SessionId = kani::any();
    let plen: usize = kani::any();
    kani::assume(plen <= 3);
    let lead: bool = kani::any();
    let pbytes: [u8; 3] = kani::any();
    kani::assume(n < (1 << 20));
    let kind: u64 = match sel % 5 {
        0 => spec::frame_type::DATA,
        1 => spec::frame_type::HEADERS,
        2 => spec::frame_type::SETTINGS,
        3 => spec::frame_type::WT_STREAM,
        _ => 0x21 + 0x1f * n as u64,
    };
    let mut off = 0;
    if lead {
        off = crate::verif_kani::util::put_ref_varint(buf, off, 0x0d);
        off = crate::verif_kani::util::put_ref_varint(buf, off, 1);
        buf[off] = pbytes[0] & 0x07; // looks like a frame type (0..7)
        off += 1;
    }
    let start = off;
    off = crate::verif_kani::util::put_ref_varint(buf, off, kind);
    if kind == spec::frame_type::WT_STREAM {
        off = crate::verif_kani::util::put_ref_varint(buf, off, sid.into_u64());
        (off, kind, Some(sid.into_u64()), 0, start)
    } else {
        off = crate::verif_kani::util::put_ref_varint(buf, off, plen as u64);
        if plen > 0 {
            buf[off] = pbytes[0];
        }
        if plen > 1 {
            buf[off + 1] = pbytes[1];
        }
        if plen > 2 {
            buf[off + 2] = pbytes[2];
        }
        (off + plen, kind, None, plen, start)
    }
}

fn rule_table(role: Role) {
    use spec::error_code::*;
    let mut buf = [0u8; 24];
    let (len, kind, session, plen, _start) = one_frame_input(&mut buf);
    let done: bool = kani::any();
    let hk_sel: u8 = kani::any();
    let hk_id: crate::varint::VarInt = kani::any();
    let mut r: &[u8] = &buf[..len];
    let (got, after) = match role {
        Role::BiRemote => {
            let mut s = biremote::StreamBiRemoteQuic::accept_bi().upgrade();
            if done {
                s.stage.set_first_frame();
            }
            let g = s.read_frame(&mut r);
            (g, s.stage.set_first_frame())
        }
        Role::BiLocal => {
            let mut s = bilocal::StreamBiLocalQuic::open_bi().upgrade();
            if done {
                s.stage.set_first_frame();
            }
            (s.read_frame(&mut r), done)
        }
        Role::UniRemoteControl => {
            let mut s = any_control_like_stream(hk_sel, hk_id);
            (s.read_frame(&mut r), done)
        }
        Role::Session => (any_session_stream().read_frame(&mut r), done),
    };
    match (rule(role, kind, done), &got) {
        (Verdict::Accept, Ok(Some(f))) => {
            assert!(frame_kind_code(&f.kind()) == kind);
            assert!(f.session_id().map(|s| s.into_u64()) == session);
            assert!(f.payload().len() == plen);
            assert!(r.is_empty());
        }
        (Verdict::Reject(code), Err(e)) => {
            assert!(e.to_code().into_inner() == code);
        }
        _ => panic!("frame-on-stream rule table: accept/reject differs from the specification"),
    }
    if role == Role::BiRemote {
        assert!(after);
    }
    kani::cover!(got.is_ok() && kind > 0x41);
    kani::cover!(session.is_some() && got.is_ok() == (role == Role::BiRemote));
    kani::cover!(got.is_err());
}

/// Buffered variant on the same inputs, cut at an arbitrary point: a proper prefix of the input is
/// need-more-data (or, when the cut falls after a complete leading unknown frame + a complete
/// frame, that frame) and NEVER moves the reader's offset unless a frame is returned; the complete
/// input gives the one-shot verdict with offset == consumption.
fn rule_table_buffered(role: Role) {
    let mut buf = [0u8; 24];
    let (len, kind, session, plen, start) = one_frame_input(&mut buf);
    let done: bool = kani::any();
    let hk_sel: u8 = kani::any();
    let hk_id: crate::varint::VarInt = kani::any();
    let cut: usize = kani::any();
    kani::assume(cut <= len);
    // First attempt on the prefix `buf[..cut]`; if it is a proper prefix the reader must ask for
    // more WITHOUT consuming anything and WITHOUT changing the stream's state: the second attempt,
    // on the SAME stream object with the whole input, must give the verdict of an untouched stream.
    macro_rules! attempts {
        ($s:ident) => {{
            let mut br1 = BufferReader::new(&buf[..cut]);
            let g1 = $s.read_frame_from_buffer(&mut br1);
            let off1 = br1.offset();
            if cut < len {
                assert!(matches!(g1, Ok(None)));
                assert!(off1 == 0);
                let mut br2 = BufferReader::new(&buf[..len]);
                let g2 = $s.read_frame_from_buffer(&mut br2);
                (g2, br2.offset())
            } else {
                (g1, off1)
            }
        }};
    }
    let (got, off) = match role {
        Role::BiRemote => {
            let mut s = biremote::StreamBiRemoteQuic::accept_bi().upgrade();
            if done {
                s.stage.set_first_frame();
            }
            attempts!(s)
        }
        Role::BiLocal => {
            let mut s = bilocal::StreamBiLocalQuic::open_bi().upgrade();
            if done {
                s.stage.set_first_frame();
            }
            attempts!(s)
        }
        Role::UniRemoteControl => {
            let mut s = any_control_like_stream(hk_sel, hk_id);
            attempts!(s)
        }
        Role::Session => {
            let s = any_session_stream();
            attempts!(s)
        }
    };
    match (rule(role, kind, done), &got) {
        (Verdict::Accept, Ok(Some(f))) => {
            assert!(frame_kind_code(&f.kind()) == kind);
            assert!(f.session_id().map(|s| s.into_u64()) == session);
            assert!(f.payload().len() == plen);
            assert!(off == len);
        }
        (Verdict::Reject(code), Err(e)) => {
            assert!(e.to_code().into_inner() == code);
            assert!(off == 0);
        }
        _ => panic!("buffered read_frame: accept/reject differs from the specification"),
    }
    let _ = start;
    kani::cover!(cut < len && cut > 2);
    kani::cover!(cut == len && got.is_ok());
    kani::cover!(cut == len && got.is_err());
    kani::cover!(cut < len && got.is_ok());
}

macro_rules! buffered_harness {
    ($name:ident, $role:expr) => {
        #[kani::proof]
        #[kani::unwind(3)]
        pub fn $name() {
            rule_table_buffered($role);
        }
    };
}
buffered_harness!(p_rule_table_buffered_biremote, Role::BiRemote);
buffered_harness!(p_rule_table_buffered_bilocal, Role::BiLocal);
buffered_harness!(p_rule_table_buffered_unicontrol, Role::UniRemoteControl);
buffered_harness!(p_rule_table_buffered_session, Role::Session);

#[kani::proof]
#[kani::unwind(3)]
pub fn p_rule_table_biremote() {
    rule_table(Role::BiRemote);
}

#[kani::proof]
#[kani::unwind(3)]
pub fn p_rule_table_bilocal() {
    rule_table(Role::BiLocal);
}

#[kani::proof]
#[kani::unwind(3)]
pub fn p_rule_table_unicontrol() {
    rule_table(Role::UniRemoteControl);
}

#[kani::proof]
#[kani::unwind(3)]
pub fn p_rule_table_session() {
    rule_table(Role::Session);
}



// ---- async local upgrades (C01, C16): the driver's path for every locally opened WT stream -------------

#[cfg(feature = "async")]
fn poll_ready<F: std::future::Future>(fut: F) -> Option<F::Output> {
    let mut fut = std::pin::pin!(fut);
    let waker = std::task::Waker::noop();
    let mut cx = std::task::Context::from_waker(waker);
    match fut.as_mut().poll(&mut cx) {
        std::task::Poll::Ready(v) => Some(v),
        std::task::Poll::Pending => None,
    }
}

/// The ASYNC upgrades of locally opened streams write exactly the preamble (0x41 / 0x54 varint +
/// session id varint) and nothing else, and keep the session id (always-ready destination; the
/// leaf futures cover every chunking / Pending pattern).
#[cfg(feature = "async")]
#[kani::proof]
#[kani::unwind(10)]
pub fn p_wt_upgrade_async_bi_exact_preamble() {
    wt_upgrade_async_exact(true);
}

#[cfg(feature = "async")]
#[kani::proof]
#[kani::unwind(10)]
pub fn p_wt_upgrade_async_uni_exact_preamble() {
    wt_upgrade_async_exact(false);
}

#[cfg(feature = "async")]
fn wt_upgrade_async_exact(bi: bool) {
    use crate::stream_header::verif_kani::ReadySink;
    let sid: SessionId = kani::any();
    let mut sink = ReadySink { data: [0; 24], pos: 0 };
    let first = if bi { spec::frame_type::WT_STREAM } else { spec::stream_type::WT_UNI };
    if bi {
        let h3 = bilocal::StreamBiLocalQuic::open_bi().upgrade();
        match poll_ready(h3.upgrade_async(sid, &mut sink)) {
            Some(Ok(wt)) => assert!(wt.session_id() == sid),
            _ => panic!("async bi upgrade did not complete on a ready destination"),
        }
    } else {
        let header = StreamHeader::new_webtransport(sid);
        match poll_ready(unilocal::StreamUniLocalQuic::open_uni().upgrade_async(header, &mut sink)) {
            Some(Ok(h3)) => assert!(h3.upgrade().session_id() == sid),
            _ => panic!("async uni upgrade did not complete on a ready destination"),
        }
    }
    let n = 2 + spec::varint_len(sid.into_u64());
    assert!(sink.pos == n);
    let i: usize = kani::any();
    kani::assume(i < 24);
    if i < 2 {
        assert!(sink.data[i] == spec::varint_byte(first, i));
    } else if i < n {
        assert!(sink.data[i] == spec::varint_byte(sid.into_u64(), i - 2));
    } else {
        assert!(sink.data[i] == 0);
    }
    kani::cover!(n == 10);
    kani::cover!(n == 3);
}
