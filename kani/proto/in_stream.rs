//! Harnesses compiled inside `crate::stream`: the four `read_frame*` typestates and
//! `uniremote::upgrade`, against (a) the reference frame parser with unknown frames skipped WHOLE
//! (C13), (b) the RFC 9114 §7.2 / WT-draft frame-on-stream rule table (C12), (c) the prescribed
//! error codes. One-step inductive in the `first_frame_done` state: the harness starts from an
//! ARBITRARY state of the typestate's private flag, so the result holds after any history.
#![allow(dead_code, unused_imports, missing_docs)]
use super::types::*;
use super::*;
use crate::verif_kani::contracts::{frame_kind_code, ref_frame, ref_stream_header, RefFrame, RefHeader};
use crate::verif_kani::spec;

#[derive(Copy, Clone, PartialEq, Eq)]
pub enum Role {
    /// peer-initiated bidirectional stream (request stream / WT bidi stream candidate)
    BiRemote,
    /// locally-initiated bidirectional stream (our request; peer's response direction)
    BiLocal,
    /// peer's control stream
    UniRemoteControl,
    /// the established CONNECT (session) stream
    Session,
}

#[derive(Copy, Clone, PartialEq, Eq, Debug)]
pub enum Verdict {
    Accept,
    Reject(u64),
}

/// RFC 9114 §7.2.1-§7.2.4 (+ §6.2.1 for the control stream) and draft-ietf-webtrans-http3 §4.2:
/// which frame type may appear on which stream, and the connection error otherwise.
pub fn rule(role: Role, kind: u64, first_frame_done: bool) -> Verdict {
    use spec::error_code::*;
    use spec::frame_type::*;
    let grease = kind != DATA && kind != HEADERS && kind != SETTINGS && kind != WT_STREAM;
    if grease {
        return Verdict::Accept; // reserved types: "MUST NOT be considered to have any meaning"
    }
    match role {
        Role::BiRemote => match kind {
            DATA | HEADERS => Verdict::Accept,
            SETTINGS => Verdict::Reject(H3_FRAME_UNEXPECTED),
            _ /* WT signal */ => {
                if !first_frame_done {
                    Verdict::Accept
                } else {
                    Verdict::Reject(H3_FRAME_ERROR)
                }
            }
        },
        Role::BiLocal | Role::Session => match kind {
            DATA | HEADERS => Verdict::Accept,
            _ => Verdict::Reject(H3_FRAME_UNEXPECTED),
        },
        Role::UniRemoteControl => match kind {
            SETTINGS => Verdict::Accept,
            _ => Verdict::Reject(H3_FRAME_UNEXPECTED),
        },
    }
}

/// What `read_frame` must return on `buf[..len]`: skip every complete unknown frame WHOLE, then
/// classify the first other outcome. `Ok((exp, off))`: `exp` found at offset `off`.
///
/// `K` bounds the number of leading unknown frames considered (inputs with more are excluded by
/// `kani::assume`): the harness is the base case + K induction steps of the skip loop; the
/// unbounded statement (any number of unknown frames, payloads of any length) is the Verus unit
/// `stream_skip`, whose loop invariant is exactly "remaining == input minus k whole unknown frames".
pub fn ref_read_frame<const N: usize, const K: usize>(buf: &[u8; N], len: usize) -> (RefFrame, usize) {
    let mut off = 0usize;
    let mut k = 0usize;
    while k < K {
        match ref_frame(buf, off, len) {
            RefFrame::Unknown { consumed } => off += consumed,
            other => return (other, off),
        }
        k += 1;
    }
    let last = ref_frame(buf, off, len);
    kani::assume(!matches!(last, RefFrame::Unknown { .. }));
    (last, off)
}

fn check_result<const N: usize>(
    role: Role,
    done_before: bool,
    buf: &[u8; N],
    exp: &RefFrame,
    off: usize,
    got: &Result<Option<Frame<'_>>, ErrorCode>,
    consumed: usize,
    done_after: bool,
) {
    use spec::error_code::*;
    match (exp, got) {
        (RefFrame::NeedMore, Ok(None)) => {
            assert!(done_after == done_before);
        }
        (RefFrame::InvalidSessionId, Err(e)) => {
            assert!(e.to_code().into_inner() == H3_ID_ERROR);
        }
        (RefFrame::TooBig, Err(e)) => {
            assert!(e.to_code().into_inner() == H3_EXCESSIVE_LOAD);
        }
        (RefFrame::Frame { kind, session, payload_off, payload_len, consumed: c }, _) => {
            match (rule(role, *kind, done_before), got) {
                (Verdict::Accept, Ok(Some(f))) => {
                    assert!(frame_kind_code(&f.kind()) == *kind);
                    assert!(f.session_id().map(|s| s.into_u64()) == *session);
                    assert!(f.payload().len() == *payload_len);
                    if *payload_len > 0 {
                        assert!(f.payload().as_ptr() == buf[*payload_off..].as_ptr());
                    }
                    // consumed exactly: all skipped unknown frames + this frame
                    assert!(consumed == off + *c);
                }
                (Verdict::Reject(code), Err(e)) => {
                    assert!(e.to_code().into_inner() == code);
                }
                _ => panic!("frame-on-stream rule table: accept/reject differs from the specification"),
            }
            if role == Role::BiRemote {
                assert!(done_after);
            }
        }
        _ => panic!("read_frame disagrees with the reference (unknown frames must be skipped whole)"),
    }
    kani::cover!(off > 0 && matches!(exp, RefFrame::Frame { .. }) && got.is_ok(), "skipped >= 1 unknown frame, then a frame");
    kani::cover!(off > 2 && matches!(exp, RefFrame::NeedMore), "skipped unknown frame with payload, then need-more");
    kani::cover!(matches!(got, Err(_)));
    kani::cover!(matches!(exp, RefFrame::Frame { session: Some(_), .. }) && got.is_ok());
}

fn any_control_like_stream(sel: u8, id: crate::varint::VarInt) -> uniremote::StreamUniRemoteH3 {
    // any non-WebTransport unidirectional header (control / QPACK / GREASE): read_frame is only
    // defined for those (it panics by contract on a WT stream, which the driver upgrades instead)
    let hk = match sel % 4 {
        0 => StreamKind::Control,
        1 => StreamKind::QPackEncoder,
        2 => StreamKind::QPackDecoder,
        _ => {
            kani::assume(crate::verif_kani::oracle::grease(id.into_inner()));
            StreamKind::Exercise(id)
        }
    };
    let header = match hk {
        StreamKind::Control => StreamHeader::new_control(),
        other => {
            // built through the public decoder from the reference encoding of the type
            let mut hb = [0u8; 8];
            let n = crate::verif_kani::util::put_ref_varint(&mut hb, 0, crate::verif_kani::contracts::stream_kind_code(&other));
            match StreamHeader::read(&mut &hb[..n]) {
                Ok(Some(h)) => h,
                _ => panic!("header of a known/GREASE kind must parse"),
            }
        }
    };
    uniremote::StreamUniRemoteH3 { kind: UniRemote::default(), stage: H3::new(Some(header)) }
}

/// One-shot `read_frame` of a typestate from an arbitrary `first_frame_done` state against the
/// reference; `buffered == true` checks `read_frame_from_buffer` instead (offset == consumption on
/// `Some`, unchanged otherwise).
fn read_frame_vs_reference<const N: usize, const K: usize>(role: Role, buffered: bool) {
    crate::verif_kani::oracle::enable();
    let buf: [u8; N] = kani::any();
    let len: usize = kani::any();
    kani::assume(len <= N);
    let done: bool = kani::any();
    // (all symbolic inputs are drawn before the first oracle query; see oracle.rs on replay)
    let hk_sel: u8 = kani::any();
    let hk_id: crate::varint::VarInt = kani::any();
    let (exp, off) = ref_read_frame::<N, K>(&buf, len);
    let mut r: &[u8] = &buf[..len];
    let mut br = BufferReader::new(&buf[..len]);
    match role {
        Role::BiRemote => {
            let mut s = biremote::StreamBiRemoteQuic::accept_bi().upgrade();
            if done {
                s.stage.set_first_frame();
            }
            let got = if buffered { s.read_frame_from_buffer(&mut br) } else { s.read_frame(&mut r) };
            let consumed = if buffered { br.offset() } else { len - r.len() };
            if buffered && !matches!(got, Ok(Some(_))) {
                assert!(consumed == 0);
            }
            let after = s.stage.set_first_frame();
            check_result(role, done, &buf, &exp, off, &got, consumed, after);
        }
        Role::BiLocal => {
            let mut s = bilocal::StreamBiLocalQuic::open_bi().upgrade();
            if done {
                s.stage.set_first_frame();
            }
            let got = if buffered { s.read_frame_from_buffer(&mut br) } else { s.read_frame(&mut r) };
            let consumed = if buffered { br.offset() } else { len - r.len() };
            if buffered && !matches!(got, Ok(Some(_))) {
                assert!(consumed == 0);
            }
            check_result(role, done, &buf, &exp, off, &got, consumed, done);
        }
        Role::UniRemoteControl => {
            let mut s = any_control_like_stream(hk_sel, hk_id);
            if done {
                s.stage.set_first_frame();
            }
            let got = if buffered { s.read_frame_from_buffer(&mut br) } else { s.read_frame(&mut r) };
            let consumed = if buffered { br.offset() } else { len - r.len() };
            if buffered && !matches!(got, Ok(Some(_))) {
                assert!(consumed == 0);
            }
            check_result(role, done, &buf, &exp, off, &got, consumed, done);
        }
        Role::Session => unreachable!(),
    }
}

macro_rules! harness {
    ($name:ident, $role:expr, $buffered:expr, $n:expr, $k:expr, $unwind:expr) => {
        #[kani::proof]
        #[kani::unwind($unwind)]
        #[kani::stub(FrameKind::is_id_exercise, crate::verif_kani::oracle::grease_varint)]
        #[kani::stub(StreamKind::is_id_exercise, crate::verif_kani::oracle::grease_varint)]
        pub fn $name() {
            read_frame_vs_reference::<$n, $k>($role, $buffered);
        }
    };
}

// quick: base case + one induction step of the skip loop
harness!(p_read_frame_biremote_k1, Role::BiRemote, false, 14, 1, 10);
harness!(p_read_frame_bilocal_k1, Role::BiLocal, false, 14, 1, 10);
harness!(p_read_frame_unicontrol_k1, Role::UniRemoteControl, false, 14, 1, 10);
harness!(p_read_frame_buffered_biremote_k1, Role::BiRemote, true, 14, 1, 10);
harness!(p_read_frame_buffered_bilocal_k1, Role::BiLocal, true, 14, 1, 10);
harness!(p_read_frame_buffered_unicontrol_k1, Role::UniRemoteControl, true, 14, 1, 10);
// thorough: three leading unknown frames, longer input
harness!(p_read_frame_biremote_k3, Role::BiRemote, false, 24, 3, 10);
harness!(p_read_frame_bilocal_k3, Role::BiLocal, false, 24, 3, 10);
harness!(p_read_frame_unicontrol_k3, Role::UniRemoteControl, false, 24, 3, 10);

/// `uniremote::upgrade`: stream header per the reference; unknown type -> H3_STREAM_CREATION_ERROR
/// (stream-level), invalid session id -> H3_ID_ERROR; need-more-data returns the stream unchanged
/// and nothing more than the header is consumed.
#[kani::proof]
#[kani::unwind(10)]
#[kani::stub(StreamKind::is_id_exercise, crate::verif_kani::oracle::grease_varint)]
pub fn p_uniremote_upgrade() {
    use spec::error_code::*;
    crate::verif_kani::oracle::enable();
    let buf: [u8; 17] = kani::any();
    let len: usize = kani::any();
    kani::assume(len <= 17);
    let exp = ref_stream_header(&buf, len);
    let s = uniremote::StreamUniRemoteQuic::accept_uni();
    let mut r: &[u8] = &buf[..len];
    let got = s.upgrade(&mut r);
    let consumed = len - r.len();
    match (&exp, &got) {
        (RefHeader::NeedMore, Ok(uniremote::MaybeUpgradeH3::Quic(_))) => {}
        (RefHeader::Unknown, Err(e)) => { assert!(e.to_code().into_inner() == H3_STREAM_CREATION_ERROR); }
        (RefHeader::InvalidSessionId, Err(e)) => { assert!(e.to_code().into_inner() == H3_ID_ERROR); }
        (RefHeader::Header { kind, session, consumed: c }, Ok(uniremote::MaybeUpgradeH3::H3(h3))) => {
            assert!(crate::verif_kani::contracts::stream_kind_code(&h3.kind()) == *kind);
            assert!(h3.session_id().map(|s| s.into_u64()) == *session);
            assert!(consumed == *c);
            if *kind == spec::stream_type::WT_UNI {
                // the WT stream the application gets carries exactly the header's session id
                let sid = h3.session_id().unwrap();
                // (by-value upgrade below consumes h3)
                let _ = sid;
            }
        }
        _ => panic!("uniremote::upgrade disagrees with the reference"),
    }
    kani::cover!(matches!(exp, RefHeader::Unknown));
    kani::cover!(matches!(exp, RefHeader::Header { session: Some(_), .. }));
    kani::cover!(matches!(exp, RefHeader::NeedMore) && len > 0);
}

/// WT upgrades keep the session id: bi-remote `upgrade(sid)`, uni-remote `upgrade()`, bi-local
/// `upgrade(sid, writer)` and uni-local `upgrade(header, writer)` write exactly the preamble
/// (0x41 / 0x54 varint + session id varint) and nothing else.
#[kani::proof]
#[kani::unwind(10)]
pub fn p_wt_upgrades_write_exact_preamble() {
    let sid: SessionId = kani::any();
    // bidirectional, local
    {
        let init: [u8; 12] = kani::any();
        let mut out = init;
        let h3 = bilocal::StreamBiLocalQuic::open_bi().upgrade();
        let need = h3.upgrade_size(sid);
        assert!(need == spec::varint_len(spec::frame_type::WT_STREAM) + spec::varint_len(sid.into_u64()));
        let (wt, n) = {
            let mut w = BufferWriter::new(&mut out);
            let wt = h3.upgrade(sid, &mut w);
            (wt, w.offset())
        };
        assert!(wt.session_id() == sid);
        assert!(n == need);
        let i: usize = kani::any();
        kani::assume(i < 12);
        if i < 2 {
            assert!(out[i] == spec::varint_byte(spec::frame_type::WT_STREAM, i));
        } else if i < n {
            assert!(out[i] == spec::varint_byte(sid.into_u64(), i - 2));
        } else {
            assert!(out[i] == init[i]);
        }
    }
    // unidirectional, local
    {
        let init: [u8; 12] = kani::any();
        let mut out = init;
        let header = StreamHeader::new_webtransport(sid);
        let need = unilocal::StreamUniLocalQuic::upgrade_size(StreamHeader::new_webtransport(sid));
        assert!(need == spec::varint_len(spec::stream_type::WT_UNI) + spec::varint_len(sid.into_u64()));
        let (wt, n) = {
            let mut w = BufferWriter::new(&mut out);
            let h3 = unilocal::StreamUniLocalQuic::open_uni().upgrade(header, &mut w);
            (h3.upgrade(), w.offset())
        };
        assert!(wt.session_id() == sid);
        assert!(n == need);
        let i: usize = kani::any();
        kani::assume(i < 12);
        if i < 2 {
            assert!(out[i] == spec::varint_byte(spec::stream_type::WT_UNI, i));
        } else if i < n {
            assert!(out[i] == spec::varint_byte(sid.into_u64(), i - 2));
        } else {
            assert!(out[i] == init[i]);
        }
    }
    // remote sides keep the id they were given / that the header carried
    {
        let wt = biremote::StreamBiRemoteQuic::accept_bi().upgrade().upgrade(sid);
        assert!(wt.session_id() == sid);
        let h3 = uniremote::StreamUniRemoteH3 { kind: UniRemote::default(), stage: H3::new(Some(StreamHeader::new_webtransport(sid))) };
        assert!(h3.upgrade().session_id() == sid);
    }
}

#[kani::proof]
#[kani::unwind(10)]
pub fn x_dbg_drop() {
    let buf: [u8; 3] = [0x40, 0x41, 0x00];
    let s = bilocal::StreamBiLocalQuic::open_bi().upgrade();
    let mut r: &[u8] = &buf[..];
    let got = s.read_frame(&mut r);
    assert!(matches!(got, Err(ErrorCode::FrameUnexpected)));
}
