//! Harnesses compiled inside `crate::settings` (private: SettingId::parse/id/is_*).
#![cfg(not(verif_skip_in_settings))] // lets the check driver drop this harness module if it no longer compiles against changed code
#![allow(dead_code, unused_imports, missing_docs)]
use super::*;
use crate::verif_kani::contracts::{setting_id_parse_post, setting_id_parse_post_exact};
use crate::verif_kani::spec;

fn parse_abs(id: VarInt) -> Result<SettingId, bool> {
    match SettingId::parse(id) {
        Ok(s) => Ok(s),
        Err(ParseError::ReservedSetting) => Err(true),
        Err(ParseError::UnknownSetting) => Err(false),
    }
}

#[kani::proof]
pub fn c_settingid_is_exercise() {
    let id: VarInt = kani::any();
    assert!(SettingId::is_exercise(id) == spec::is_grease(id.into_inner()));
}

#[kani::proof_for_contract(SettingId::is_reserved)]
pub fn c_settingid_is_reserved() {
    let id: VarInt = kani::any();
    let r = SettingId::is_reserved(id);
    kani::cover!(r);
    kani::cover!(!r);
}

/// `SettingId::parse` for all 2^62 ids (GREASE test abstracted by the uninterpreted oracle, whose
/// identity with the RFC predicate is `c_settingid_is_exercise`): HTTP/2 ids are reserved, GREASE
/// kept with its id, the seven registered settings, everything else unknown (to be ignored).
#[kani::proof]
#[kani::stub(SettingId::is_exercise, crate::verif_kani::oracle::grease_varint)]
pub fn c_settingid_parse() {
    crate::verif_kani::oracle::enable();
    let id: VarInt = kani::any();
    let r = parse_abs(id);
    assert!(setting_id_parse_post(id.into_inner(), r));
    kani::cover!(matches!(r, Err(true)));
    kani::cover!(matches!(r, Err(false)));
    kani::cover!(matches!(r, Ok(SettingId::Exercise(_))));
    kani::cover!(matches!(r, Ok(SettingId::WebTransportMaxSessions)));
}

/// `id` returns the registry value and `parse(id(s)) == s`: registry values per RFC 9114 §7.2.4.1,
/// RFC 9204 §5, RFC 9220 §3, RFC 9297 §2.1.1, draft-ietf-webtrans-http3.
#[kani::proof]
#[kani::stub(SettingId::is_exercise, crate::verif_kani::oracle::grease_varint)]
pub fn c_settingid_id() {
    crate::verif_kani::oracle::enable();
    let s = crate::verif_kani::arb::any_setting_id_g();
    // a GREASE setting id is never one of the reserved HTTP/2 ids (p_grease_facts)
    let id = s.id();
    assert!(setting_id_parse_post(id.into_inner(), Ok(s)) || matches!(s, SettingId::Exercise(_)));
    match parse_abs(id) {
        Ok(back) => {
            assert!(back == s);
        }
        Err(_) => panic!("a registered or GREASE setting id must parse"),
    }
    assert!(setting_ids::SETTINGS_QPACK_MAX_TABLE_CAPACITY.into_inner() == 0x01);
    assert!(setting_ids::SETTINGS_MAX_FIELD_SECTION_SIZE.into_inner() == 0x06);
    assert!(setting_ids::SETTINGS_QPACK_BLOCKED_STREAMS.into_inner() == 0x07);
    assert!(setting_ids::SETTINGS_ENABLE_CONNECT_PROTOCOL.into_inner() == 0x08);
    assert!(setting_ids::SETTINGS_H3_DATAGRAM.into_inner() == 0x33);
    assert!(setting_ids::SETTINGS_ENABLE_WEBTRANSPORT.into_inner() == 0x2b60_3742);
    assert!(setting_ids::SETTINGS_WEBTRANSPORT_MAX_SESSIONS.into_inner() == 0xc671_706a);
}
