//! Identifier algebra (C17) and status codes (C18): contracts on ids.rs. All loop-free over the
//! full 62-bit (resp. 16/32/64-bit) domain ⇒ complete.
#![cfg(not(verif_skip_h_ids))] // lets the check driver drop this harness module if it no longer compiles against changed code
use crate::ids::{QStreamId, SessionId, StatusCode, StreamId};
use crate::varint::VarInt;
use core::str::FromStr;

use super::arb::*;
use super::spec;

#[kani::proof_for_contract(StreamId::is_bidirectional)]
pub fn c_streamid_is_bidirectional() {
    let s: StreamId = kani::any();
    let r = s.is_bidirectional();
    kani::cover!(r);
    kani::cover!(!r);
}

#[kani::proof_for_contract(StreamId::is_client_initiated)]
pub fn c_streamid_is_client_initiated() {
    let s: StreamId = kani::any();
    let r = s.is_client_initiated();
    kani::cover!(r);
    kani::cover!(!r);
}

#[kani::proof_for_contract(StreamId::is_local)]
pub fn c_streamid_is_local() {
    let s: StreamId = kani::any();
    let r = s.is_local(kani::any());
    kani::cover!(r);
    kani::cover!(!r);
}

/// RFC 9000 §2.1 table as a whole, written out by residue class (independent of the spec fns).
#[kani::proof]
pub fn p_streamid_table() {
    let s: StreamId = kani::any();
    let id = s.into_u64();
    assert!(s.into_varint().into_inner() == id);
    assert!(VarInt::from(s).into_inner() == id);
    let (bidi, client) = match id & 3 {
        0 => (true, true),
        1 => (true, false),
        2 => (false, true),
        _ => (false, false),
    };
    assert!(s.is_bidirectional() == bidi);
    assert!(s.is_client_initiated() == client);
    assert!(s.is_local(false) == client);
    assert!(s.is_local(true) == !client);
    assert!(StreamId::MAX.into_u64() == spec::VARINT_MAX);
}

/// Modular: try_from_session_stream is checked against the contracts of is_bidirectional /
/// is_client_initiated only.
#[kani::proof_for_contract(SessionId::try_from_session_stream)]
#[kani::stub_verified(StreamId::is_bidirectional)]
#[kani::stub_verified(StreamId::is_client_initiated)]
pub fn c_sessionid_try_from_session_stream() {
    let s: StreamId = kani::any();
    let r = SessionId::try_from_session_stream(s);
    kani::cover!(r.is_ok());
    kani::cover!(r.is_err());
}

/// try_from_varint (used by every decoder) against try_from_session_stream's contract; getters.
#[kani::proof]
#[kani::stub_verified(SessionId::try_from_session_stream)]
pub fn p_sessionid_try_from_varint() {
    let v: VarInt = kani::any();
    match SessionId::try_from_varint(v) {
        Ok(s) => {
            assert!(v.into_inner() % 4 == 0);
            assert!(s.into_u64() == v.into_inner());
        }
        Err(_) => { assert!(v.into_inner() % 4 != 0); }
    }
}

#[kani::proof]
pub fn p_sessionid_getters() {
    let v: VarInt = kani::any();
    if let Ok(s) = SessionId::try_from_varint(v) {
        assert!(s.into_varint() == v);
        assert!(s.session_stream().into_u64() == v.into_inner());
        assert!(s.session_stream().is_bidirectional() && s.session_stream().is_client_initiated());
        kani::cover!(v.into_inner() == spec::VARINT_MAX - 3);
    }
}

#[kani::proof_for_contract(QStreamId::try_from_varint)]
pub fn c_qstreamid_try_from_varint() {
    let v: VarInt = kani::any();
    let r = QStreamId::try_from_varint(v);
    kani::cover!(r.is_ok() && v.into_inner() == spec::QSTREAM_MAX);
    kani::cover!(r.is_err() && v.into_inner() == spec::QSTREAM_MAX + 1);
}

#[kani::proof_for_contract(QStreamId::from_session_id)]
pub fn c_qstreamid_from_session_id() {
    let s: SessionId = kani::any();
    let q = QStreamId::from_session_id(s);
    kani::cover!(q.into_u64() == spec::QSTREAM_MAX);
}

#[kani::proof_for_contract(QStreamId::into_stream_id)]
pub fn c_qstreamid_into_stream_id() {
    let q: QStreamId = kani::any();
    let s = q.into_stream_id();
    kani::cover!(s.into_u64() == spec::VARINT_MAX - 3);
}

/// Modular: against into_stream_id's and the StreamId predicates' contracts only (the
/// `debug_assert` and the `unsafe ..._unchecked` precondition are discharged from them).
#[kani::proof_for_contract(QStreamId::into_session_id)]
#[kani::stub_verified(QStreamId::into_stream_id)]
#[kani::stub_verified(StreamId::is_bidirectional)]
#[kani::stub_verified(StreamId::is_client_initiated)]
pub fn c_qstreamid_into_session_id() {
    let q: QStreamId = kani::any();
    let _ = q.into_session_id();
}

/// Mutual inverses, from the contracts alone (lemma over the contracts).
#[kani::proof]
#[kani::stub_verified(QStreamId::into_session_id)]
#[kani::stub_verified(QStreamId::from_session_id)]
pub fn p_qstream_session_inverse_modular() {
    let q: QStreamId = kani::any();
    let s = q.into_session_id();
    assert!(QStreamId::from_session_id(s).into_u64() == q.into_u64());
    let s2: SessionId = kani::any();
    let q2 = QStreamId::from_session_id(s2);
    assert!(q2.into_session_id().into_u64() == s2.into_u64());
}

/// The same on the real bodies (no stubs), plus constants and getters.
#[kani::proof]
pub fn p_qstream_session_inverse_real() {
    assert!(QStreamId::MAX.into_u64() == spec::QSTREAM_MAX);
    let q: QStreamId = kani::any();
    assert!(q.into_varint().into_inner() == q.into_u64());
    let s = q.into_session_id();
    assert!(s.into_u64() == q.into_u64() * 4);
    assert!(s.session_stream().into_u64() == q.into_stream_id().into_u64());
    assert!(QStreamId::from_session_id(s) == q);
    let s2: SessionId = kani::any();
    assert!(QStreamId::from_session_id(s2).into_session_id() == s2);
    assert!(QStreamId::from_session_id(s2).into_stream_id() == s2.session_stream());
}

// ---- StatusCode (C18) ---------------------------------------------------------------------------

/// Every numeric constructor: Ok(c) ⇔ 100 ≤ v ≤ 599 ∧ c == v.
#[kani::proof]
pub fn p_statuscode_numeric_ctors() {
    let a: u8 = kani::any();
    let b: u16 = kani::any();
    let c: u32 = kani::any();
    let d: u64 = kani::any();
    match StatusCode::try_from(a) {
        Ok(s) => { assert!(a >= 100 && s.into_inner() == a as u16); }
        Err(_) => { assert!(a < 100); }
    }
    match StatusCode::try_from(b) {
        Ok(s) => { assert!((100..=599).contains(&b) && s.into_inner() == b); }
        Err(_) => { assert!(!(100..=599).contains(&b)); }
    }
    match StatusCode::try_from(c) {
        Ok(s) => { assert!((100..=599).contains(&c) && s.into_inner() as u32 == c); }
        Err(_) => { assert!(!(100..=599).contains(&c)); }
    }
    match StatusCode::try_from_u32(c) {
        Ok(s) => { assert!((100..=599).contains(&c) && s.into_inner() as u32 == c); }
        Err(_) => { assert!(!(100..=599).contains(&c)); }
    }
    match StatusCode::try_from(d) {
        Ok(s) => { assert!((100..=599).contains(&d) && s.into_inner() as u64 == d); }
        Err(_) => { assert!(!(100..=599).contains(&d)); }
    }
    assert!(StatusCode::MIN.into_inner() == 100 && StatusCode::MAX.into_inner() == 599);
    assert!(StatusCode::OK.into_inner() == 200);
    assert!(StatusCode::FORBIDDEN.into_inner() == 403);
    assert!(StatusCode::NOT_FOUND.into_inner() == 404);
    assert!(StatusCode::TOO_MANY_REQUESTS.into_inner() == 429);
}

/// "a status value never escapes that range through any constructor": `Default` is one.
#[kani::proof]
pub fn p_statuscode_default_in_range() {
    assert!((100..=599).contains(&StatusCode::default().into_inner()));
}

#[kani::proof]
pub fn p_statuscode_is_successful() {
    let s: StatusCode = kani::any();
    assert!(s.is_successful() == (200..=299).contains(&s.into_inner()));
}

/// `FromStr`: for every string of up to 5 ASCII bytes (covers every u16 in decimal, signs,
/// spaces, non-digits, empty): Ok(c) ⇒ 100 ≤ c ≤ 599 and c is the decimal value; digit strings
/// denoting a value outside 100..=599 are Err. Bounded(5 bytes): longer strings are either not
/// canonical decimals of a u16 or overflow `u16::from_str` (std, trusted).
#[kani::proof]
#[kani::unwind(7)]
pub fn p_statuscode_from_str() {
    let bytes: [u8; 5] = kani::any();
    let len: usize = kani::any();
    kani::assume(len <= 5);
    let mut i = 0;
    while i < 5 {
        kani::assume(bytes[i] < 0x80);
        i += 1;
    }
    let s = core::str::from_utf8(&bytes[..len]).unwrap();
    let r = StatusCode::from_str(s);

    // reference: decimal value if all digits (optionally one leading '+', which u16::from_str accepts)
    let mut all_digits = len > 0;
    let mut val: u32 = 0;
    let mut k = 0;
    let start = if len > 1 && bytes[0] == b'+' { 1 } else { 0 };
    while k < 5 {
        if k >= start && k < len {
            if bytes[k].is_ascii_digit() {
                val = val * 10 + (bytes[k] - b'0') as u32;
            } else {
                all_digits = false;
            }
        }
        k += 1;
    }
    match r {
        Ok(c) => {
            assert!((100..=599).contains(&c.into_inner()));
            assert!(all_digits && val == c.into_inner() as u32);
        }
        Err(_) => {
            assert!(!all_digits || !(100..=599).contains(&val));
        }
    }
    kani::cover!(r.is_ok());
    kani::cover!(r.is_err() && all_digits && val == 99);
    kani::cover!(r.is_err() && all_digits && val == 600);
}
