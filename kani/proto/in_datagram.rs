//! Harnesses compiled inside `crate::datagram` (C03, C11, C14, C16, C17).
#![cfg(not(verif_skip_in_datagram))] // lets the check driver drop this harness module if it no longer compiles against changed code
#![allow(dead_code, unused_imports, missing_docs)]
use super::*;
use crate::varint::VarInt;
use crate::verif_kani::spec;

/// Modular: checked against `VarInt::size`'s contract only.
#[kani::proof_for_contract(Datagram::header_size)]
#[kani::stub_verified(VarInt::size)]
pub fn c_datagram_header_size() {
    let q: QStreamId = kani::any();
    let n = Datagram::header_size(q);
    kani::cover!(n == 8);
    kani::cover!(n == 1);
}

/// Modular: checked against `Datagram::header_size`'s contract only.
#[kani::proof_for_contract(Datagram::write_size)]
#[kani::stub_verified(Datagram::header_size)]
pub fn c_datagram_write_size() {
    let q: QStreamId = kani::any();
    let payload: [u8; 8] = kani::any();
    let len: usize = kani::any();
    kani::assume(len <= 8);
    let d = Datagram::new(q, &payload[..len]);
    let _ = d.write_size();
}

/// For every quarter stream id (1/2/4/8-byte encodings), every payload of length <= P and every
/// destination size: `write` succeeds iff the buffer can hold `write_size`, returns exactly that,
/// emits `varint(qid) || payload` and nothing else, leaves a too-small buffer untouched; `read`
/// of the output yields the same id and a payload that is exactly the remaining bytes (zero-copy).
fn datagram_roundtrip<const P: usize, const N: usize>() {
    let q: QStreamId = kani::any();
    let pbytes: [u8; P] = kani::any();
    let plen: usize = kani::any();
    kani::assume(plen <= P);
    let d = Datagram::new(q, &pbytes[..plen]);
    let hdr = spec::varint_len(q.into_u64());
    assert!(d.write_size() == hdr + plen);
    assert!(Datagram::header_size(q) == hdr);

    let cap: usize = kani::any();
    kani::assume(cap <= N);
    let init: [u8; N] = kani::any();
    let mut out = init;
    let res = d.write(&mut out[..cap]);
    assert!(res.is_ok() == (cap >= hdr + plen));
    let i: usize = kani::any();
    kani::assume(i < N);
    match res {
        Ok(n) => {
            assert!(n == hdr + plen);
            if i < hdr {
                assert!(out[i] == spec::varint_byte(q.into_u64(), i));
            } else if i < n {
                assert!(out[i] == pbytes[i - hdr]);
            } else {
                assert!(out[i] == init[i]);
            }
            match Datagram::read(&out[..n]) {
                Ok(back) => {
                    assert!(back.qstream_id() == q);
                    assert!(back.payload().len() == plen);
                    assert!(plen == 0 || back.payload().as_ptr() == out[hdr..].as_ptr());
                    // the session the datagram is attributed to is the sender's
                    assert!(back.qstream_id().into_session_id().into_u64() == 4 * q.into_u64());
                }
                Err(_) => panic!("decoding an encoded datagram failed"),
            }
        }
        Err(_) => {
            assert!(out[i] == init[i]);
        }
    }
    kani::cover!(res.is_ok() && hdr == 8 && plen == P);
    kani::cover!(res.is_ok() && hdr == 1 && plen == 0);
    kani::cover!(res.is_err() && cap + 1 == hdr + plen);
}

#[kani::proof]
#[kani::unwind(10)]
pub fn p_datagram_roundtrip_16() {
    datagram_roundtrip::<16, 26>();
}

#[kani::proof]
#[kani::unwind(10)]
pub fn p_datagram_roundtrip_256() {
    datagram_roundtrip::<256, 266>();
}

/// Every byte string of length <= 12 offered as a QUIC datagram: `Ok` iff it starts with a
/// complete varint that is a valid quarter stream id (<= 2^60-1); the payload is everything after
/// it (never altered, merged or truncated); otherwise H3_DATAGRAM_ERROR. No panic.
#[kani::proof]
#[kani::unwind(10)]
pub fn p_datagram_read_total() {
    let b: [u8; 12] = kani::any();
    let len: usize = kani::any();
    kani::assume(len <= 12);
    let got = Datagram::read(&b[..len]);
    let got_ok = got.is_ok();
    let complete = len > 0 && len >= spec::varint_len_from_first(b[0]);
    if complete {
        let n = spec::varint_len_from_first(b[0]);
        let v = spec::varint_value(&b, n);
        match got {
            Ok(d) => {
                assert!(v <= spec::QSTREAM_MAX);
                assert!(d.qstream_id().into_u64() == v);
                assert!(d.payload().len() == len - n);
                assert!(len == n || d.payload().as_ptr() == b[n..].as_ptr());
            }
            Err(e) => {
                assert!(v > spec::QSTREAM_MAX);
                assert!(e.to_code().into_inner() == spec::error_code::H3_DATAGRAM_ERROR);
            }
        }
    } else {
        match got {
            Err(e) => { assert!(e.to_code().into_inner() == spec::error_code::H3_DATAGRAM_ERROR); }
            Ok(_) => panic!("truncated quarter stream id accepted"),
        }
    }
    kani::cover!(got_ok && len == 12);
    kani::cover!(!got_ok && complete);
    kani::cover!(!complete && len > 0);
}
