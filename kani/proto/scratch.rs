use crate::verif_kani::spec;
use crate::varint::VarInt;
use crate::bytes::BytesReader;

#[kani::proof]
pub fn x_grease_equiv() {
    let v: u64 = kani::any();
    kani::assume(v <= spec::VARINT_MAX);
    let a = spec::is_grease(v);
    let b = v >= 0x21 && (v - 0x21) % 0x1f == 0;
    assert!(a == b);
}

#[kani::proof]
pub fn x_grease_single() {
    let v: u64 = kani::any();
    kani::assume(v <= spec::VARINT_MAX);
    let a = spec::is_grease(v);
    kani::cover!(a && v > 1000);
}

#[kani::proof]
#[kani::unwind(10)]
pub fn x_refvalue_vs_reader() {
    let buf: [u8; 17] = kani::any();
    let len: usize = kani::any();
    kani::assume(len <= 17);
    let mut s: &[u8] = &buf[..len];
    if let Some(v) = s.get_varint() {
        let n = spec::varint_len_from_first(buf[0]);
        assert!(v.into_inner() == spec::varint_value(&buf, n));
        if let Some(w) = s.get_varint() {
            let n2 = spec::varint_len_from_first(buf[n]);
            assert!(w.into_inner() == spec::varint_value(&buf[n..], n2));
        }
    }
}
