//! Verification module compiled INTO the `wtransport` driver crate under `cfg(kani)`.
//! Only leaf functions that do not need a live QUIC connection are in reach here.
#![allow(dead_code, unused_imports, missing_docs)]

use crate::driver::utils::{streamid_q2w, varint_q2w, varint_w2q};
use crate::error::{StreamReadError, StreamWriteError};
use crate::VarInt;

const VARINT_MAX: u64 = (1u64 << 62) - 1;

fn any_quinn_varint() -> quinn::VarInt {
    let v: u64 = kani::any();
    kani::assume(v <= VARINT_MAX);
    quinn::VarInt::from_u64(v).unwrap()
}

fn any_varint() -> VarInt {
    let v: u64 = kani::any();
    kani::assume(v <= VARINT_MAX);
    VarInt::try_from_u64(v).unwrap()
}

/// quinn <-> wtransport integer conversions are the identity on all 2^62 values; the
/// `debug_assert`s and the `unsafe ..._unchecked` preconditions are discharged.
#[kani::proof]
pub fn p_varint_conversions_identity() {
    let q = any_quinn_varint();
    assert!(varint_q2w(q).into_inner() == q.into_inner());
    let w = any_varint();
    assert!(varint_w2q(w).into_inner() == w.into_inner());
    assert!(varint_q2w(varint_w2q(w)) == w);
    kani::cover!(q.into_inner() == VARINT_MAX);
}

/// Stream termination codes (C06): for every 62-bit code `Reset(c)` maps to `Reset(c)` and
/// `Stopped(c)` to `Stopped(c)`; the other constructible variants map to the documented arm and
/// never to a `Reset`/`Stopped` carrying an invented code.
#[kani::proof]
pub fn p_read_error_mapping() {
    let c = any_quinn_varint();
    assert!(StreamReadError::from(quinn::ReadError::Reset(c)) == StreamReadError::Reset(varint_q2w(c)));
    match StreamReadError::from(quinn::ReadError::Reset(c)) {
        StreamReadError::Reset(w) => { assert!(w.into_inner() == c.into_inner()); }
        _ => panic!("reset must stay a reset"),
    }
    assert!(StreamReadError::from(quinn::ReadError::ClosedStream) == StreamReadError::NotConnected);
    assert!(StreamReadError::from(quinn::ReadError::IllegalOrderedRead) == StreamReadError::QuicProto);
    assert!(StreamReadError::from(quinn::ReadError::ZeroRttRejected) == StreamReadError::QuicProto);
    kani::cover!(c.into_inner() == VARINT_MAX);
    kani::cover!(c.into_inner() == 0);
}

#[kani::proof]
pub fn p_write_error_mapping() {
    let c = any_quinn_varint();
    match StreamWriteError::from(quinn::WriteError::Stopped(c)) {
        StreamWriteError::Stopped(w) => { assert!(w.into_inner() == c.into_inner()); }
        _ => panic!("stopped must stay stopped"),
    }
    assert!(matches!(StreamWriteError::from(quinn::WriteError::ClosedStream), StreamWriteError::NotConnected));
    assert!(matches!(StreamWriteError::from(quinn::WriteError::ZeroRttRejected), StreamWriteError::QuicProto));
    kani::cover!(c.into_inner() == VARINT_MAX);
}

/// Counterexample replay (see /verif/lib/kani.py).
#[cfg(test)]
mod playback {
    use super::*;
    include!("/verif/.build/playback/current_driver.rs");
}

/// quinn stream ids convert without change and classify per RFC 9000 §2.1 (C17 on the driver
/// boundary): for every initiator, direction and index < 2^60.
#[kani::proof]
pub fn p_streamid_q2w() {
    let index: u64 = kani::any();
    kani::assume(index < (1u64 << 60));
    let client: bool = kani::any();
    let bi: bool = kani::any();
    let q = quinn::StreamId::new(
        if client { quinn::Side::Client } else { quinn::Side::Server },
        if bi { quinn::Dir::Bi } else { quinn::Dir::Uni },
        index,
    );
    let w = streamid_q2w(q);
    assert!(w.into_u64() == quinn::VarInt::from(q).into_inner());
    assert!(w.into_u64() >> 2 == index);
    assert!(w.is_bidirectional() == bi);
    assert!(w.is_client_initiated() == client);
    assert!(w.is_local(false) == client);
    // a session id is accepted exactly for client-initiated bidirectional streams
    assert!(crate::SessionId::try_from_session_stream(w).is_ok() == (client && bi));
    kani::cover!(index == (1u64 << 60) - 1 && client && bi);
}

/// Datagram header overhead used by `Connection::max_datagram_size` (C03): exactly the varint
/// length of the session's quarter stream id, 1..=8.
#[kani::proof]
pub fn p_driver_datagram_header_size() {
    let v: u64 = kani::any();
    kani::assume(v <= VARINT_MAX && v % 4 == 0);
    let sid = crate::SessionId::try_from_session_stream(crate::StreamId::new(VarInt::try_from_u64(v).unwrap())).unwrap();
    let h = crate::datagram::Datagram::header_size(sid);
    let q = v / 4;
    let expect = if q < 64 { 1 } else if q < 16384 { 2 } else if q < (1 << 30) { 4 } else { 8 };
    assert!(h == expect);
}

/// QUIC application close (C04): the peer's 62-bit close code and reason reach the application
/// unchanged, as an `ApplicationClosed` error (never another arm), for all 2^62 codes.
#[kani::proof]
pub fn p_application_close_code_exact() {
    let c = any_quinn_varint();
    let close = quinn::ApplicationClose { error_code: c, reason: bytes::Bytes::new() };
    match crate::error::ConnectionError::from(quinn::ConnectionError::ApplicationClosed(close)) {
        crate::error::ConnectionError::ApplicationClosed(app) => {
            assert!(app.code().into_inner() == c.into_inner());
            assert!(app.reason().is_empty());
        }
        _ => panic!("an application close must be reported as an application close"),
    }
    kani::cover!(c.into_inner() > u32::MAX as u64);
}

/// The other connection-error causes are never reported as an application close (C04/C09: "never
/// misattributed"), and keep their own arm.
#[kani::proof]
pub fn p_connection_error_arms() {
    use crate::error::ConnectionError as W;
    use quinn::ConnectionError as Q;
    assert!(matches!(W::from(Q::TimedOut), W::TimedOut));
    assert!(matches!(W::from(Q::LocallyClosed), W::LocallyClosed));
    assert!(matches!(W::from(Q::CidsExhausted), W::CidsExhausted));
    assert!(matches!(W::from(Q::Reset), W::QuicProto(_)));
    assert!(matches!(W::from(Q::VersionMismatch), W::QuicProto(_)));
}
