"""Verus back end: mechanical extraction of real functions from /repo on every run + contract
overlay from /verif/verus/units/<unit>.rs.tpl, then `verus <file>`.

Template language (lines starting with `//@`):

  //@ extract <file> >> <segment> >> <segment> ...      begin an extraction block
  //@ <key> <text>                                       directive for the block
  //@ | <text>                                           continuation of the previous directive
  //@ end                                                emit the extracted item here

Keys: requires / ensures / decreases / prologue / ret <name> / attr <text> /
      loop <n> invariant|decreases|ensures|invariant_except_break <text> /
      subst `old` => `new` [xN]       (R6/R8 rewrites: must match exactly N (default 1) times)
      substw ...                      (same, whitespace-insensitive)
      rename `path` => `name`         (R2: module-path flattening, every occurrence)
      insert_after `anchor` => `text` / insert_before `anchor` => `text`   (ghost insertions)
      drop `text`                    (R7: compile-time-only macro statements)
      bodyless                       (keep only the signature; body replaced by unimplemented!(): for external_body items)

Everything not produced by an `extract` block is hand-written ghost text (spec fns, lemmas, assumed
external specs). What extraction drops/rewrites (R1-R8) is documented in DESIGN.md §1.2 and listed
per item in the evidence.
"""
import hashlib
import json
import os
import re
import subprocess
import time

import rustscan as R

VERIF = os.path.dirname(os.path.dirname(os.path.abspath(__file__)))
REPO = os.environ.get("VERIF_REPO", "/repo")
UNITS = os.environ.get("VERIF_UNITS", os.path.join(VERIF, "verus", "units"))
OUT = os.environ.get("VERIF_VERUS_OUT", os.path.join(VERIF, ".build", "verus"))


def checker_cmd_text():
    return "python3 /verif/lib/verus.py <unit>  (extract from /repo, then: verus --multiple-errors 50 --output-json --time /verif/.build/verus/<unit>.rs)"


class Block:
    def __init__(self, file, path, line_no):
        self.file = file
        self.path = path
        self.line_no = line_no
        self.directives = []   # (key, text)


def expand_includes(text):
    """`//@ include <file>`: splice another template fragment (relative to verus/units)."""
    out = []
    for line in text.splitlines():
        st = line.strip()
        if st.startswith("//@ include "):
            inc = os.path.join(UNITS, st[len("//@ include "):].strip())
            out.append(expand_includes(open(inc).read()))
        else:
            out.append(line)
    return "\n".join(out) + "\n"


def parse_template(text):
    """Returns list of ('text', str) | ('block', Block)."""
    text = expand_includes(text)
    out = []
    cur = None
    buf = []
    for ln, line in enumerate(text.splitlines(), 1):
        st = line.strip()
        if st.startswith("//@"):
            body = st[3:].strip()
            if body.startswith("extract "):
                if cur is not None:
                    raise R.LostAnchor("template line %d: nested extract" % ln)
                if buf:
                    out.append(("text", "\n".join(buf) + "\n"))
                    buf = []
                parts = [p.strip() for p in body[len("extract "):].split(">>")]
                cur = Block(parts[0], parts[1:], ln)
            elif body == "end":
                if cur is None:
                    raise R.LostAnchor("template line %d: end without extract" % ln)
                out.append(("block", cur))
                cur = None
            elif body.startswith("|"):
                if cur is None or not cur.directives:
                    raise R.LostAnchor("template line %d: continuation without directive" % ln)
                k, t = cur.directives[-1]
                cur.directives[-1] = (k, t + "\n" + body[1:].rstrip())
            else:
                if cur is None:
                    raise R.LostAnchor("template line %d: directive outside extract block: %s" % (ln, body))
                m = re.match(r"(loop \d+ \w+|\w[\w-]*)\s*(.*)$", body, re.S)
                cur.directives.append((m.group(1), m.group(2)))
        else:
            if cur is not None and st:
                raise R.LostAnchor("template line %d: text inside extract block" % ln)
            if cur is None:
                buf.append(line)
    if cur is not None:
        raise R.LostAnchor("unterminated extract block at line %d" % cur.line_no)
    if buf:
        out.append(("text", "\n".join(buf) + "\n"))
    return out


def _paren_end(masked, open_idx, open_ch="(", close_ch=")"):
    depth = 0
    for k in range(open_idx, len(masked)):
        if masked[k] == open_ch:
            depth += 1
        elif masked[k] == close_ch:
            depth -= 1
            if depth == 0:
                return k
    raise R.LostAnchor("unbalanced %s" % open_ch)


def _split_top_commas(text):
    m = R.mask(text)
    parts, depth, last = [], 0, 0
    for i, ch in enumerate(m):
        if ch in "([{":
            depth += 1
        elif ch in ")]}":
            depth -= 1
        elif ch == "," and depth == 0:
            parts.append(text[last:i])
            last = i + 1
    parts.append(text[last:])
    return [p.strip() for p in parts if p.strip()]


def rewrite_macros(text, applied):
    """R4/R5: debug_assert*/assert! -> `if !(e) { unreachable!() }`; `.expect("..")` -> `.unwrap()`."""
    while True:
        m = R.mask(text)
        mm = re.search(r"\b(debug_assert_eq|debug_assert_ne|debug_assert|assert_eq|assert_ne|assert)!\s*\(", m)
        if not mm:
            break
        open_idx = mm.end() - 1
        close = _paren_end(m, open_idx)
        inner = text[open_idx + 1:close]
        name = mm.group(1)
        args = _split_top_commas(inner)
        if name.endswith("_eq"):
            cond = "(%s) == (%s)" % (args[0], args[1])
        elif name.endswith("_ne"):
            cond = "(%s) != (%s)" % (args[0], args[1])
        else:
            cond = args[0]
        rep = "if !(%s) { unreachable!() }" % cond
        # swallow a trailing `;`
        end = close + 1
        k = end
        while k < len(text) and text[k] in " \t":
            k += 1
        if k < len(text) and text[k] == ";":
            end = k + 1
        text = text[:mm.start()] + rep + text[end:]
        applied.add("R4/R5 %s! -> if !(..) { unreachable!() }" % name)
    while True:
        m = R.mask(text)
        mm = re.search(r"\.\s*expect\s*\(", m)
        if not mm:
            break
        close = _paren_end(m, mm.end() - 1)
        text = text[:mm.start()] + ".unwrap()" + text[close + 1:]
        applied.add("R5 .expect(msg) -> .unwrap()")
    return text


def expand_matches(text, applied):
    """R10: `matches!(e, pat [if guard])` -> `(match e { pat [if guard] => true, _ => false })`: the
    definition of the std macro, written out (Verus syntax is not parsed inside macro arguments)."""
    while True:
        m = R.mask(text)
        mm = re.search(r"\bmatches!\s*\(", m)
        if not mm:
            return text
        open_idx = mm.end() - 1
        close = _paren_end(m, open_idx)
        inner = text[open_idx + 1:close]
        args = _split_top_commas(inner)
        if len(args) < 2:
            raise R.LostAnchor("matches! with %d arguments" % len(args))
        scrut, pat = args[0].strip(), ",".join(args[1:]).strip().rstrip(",")
        text = text[:mm.start()] + "(match %s { %s => true, _ => false })" % (scrut, pat) + text[close + 1:]
        applied.add("R10 matches!(e, p) -> (match e { p => true, _ => false })")


def fold_literal_shifts(text, applied):
    """R6': a shift of one integer literal by another (`1 << 6`) is written as its value (`64`): z3's
    linear arithmetic does not evaluate shifts, so a constant spelled this way would be opaque."""
    m = R.mask(text)
    out, last, n = [], 0, 0
    for mm in re.finditer(r"(?<![\w.])(\d[\d_]*)\s*<<\s*(\d[\d_]*)(?![\w.])", m):
        a, b = int(mm.group(1).replace("_", "")), int(mm.group(2).replace("_", ""))
        if b >= 128:
            continue
        out.append(text[last:mm.start()])
        out.append(str(a << b))
        last = mm.end()
        n += 1
    out.append(text[last:])
    if n:
        applied.add("R6' literal shift folded to its value x%d" % n)
    return "".join(out)


def drop_awaits(text, applied):
    """R9: every `.await` is dropped (the async fn is verified as the sequential composition of its
    awaits; each awaited call stands for the completed future's output)."""
    m = R.mask(text)
    out, last, n = [], 0, 0
    for mm in re.finditer(r"\s*\.\s*await\b", m):
        out.append(text[last:mm.start()])
        last = mm.end()
        n += 1
    out.append(text[last:])
    text = "".join(out)
    if n:
        applied.add("R9 `.await` dropped x%d (sequential composition of the awaits)" % n)
    m = R.mask(text)
    mm = re.match(r"\s*((?:(?:const|unsafe)\s+)*)async\s+((?:(?:const|unsafe)\s+)*)fn\b", m)
    if mm:
        text = text[:mm.start(1)] + text[mm.start(1):mm.end()].replace("async", "", 1).lstrip() + text[mm.end():]
        applied.add("R9 `async fn` -> `fn`")
    return text


def drop_log_macros(text, applied):
    """R7: `tracing` log statements (`trace!/debug!/info!/warn!/error!(..);`) are dropped: they only
    format their arguments for a subscriber and have no effect on control flow or state."""
    while True:
        m = R.mask(text)
        mm = re.search(r"\b(trace|debug|info|warn|error)!\s*\(", m)
        if not mm:
            return text
        close = _paren_end(m, mm.end() - 1)
        end = close + 1
        k = end
        while k < len(text) and text[k] in " \t":
            k += 1
        if k < len(text) and text[k] == ";":
            end = k + 1
        text = text[:mm.start()] + text[end:]
        applied.add("R7 tracing log statement %s!(..) dropped" % mm.group(1))


def count_opaque_closures(text):
    """Closures without a Verus contract (`|x| e`, not `|x: T| -> (o: U) ensures .. { e }`). Verus does
    not infer closure contracts, so the value such a closure returns is unknown to the caller: a
    proof failure in a function that GAINED one (e.g. by a harmless refactoring) is a tool limit."""
    m = R.mask(text)
    n = 0
    i = 0
    L = len(m)
    while i < L:
        if m[i] != "|":
            i += 1
            continue
        k = i - 1
        while k >= 0 and m[k] in " \t\n":
            k -= 1
        prev = m[k] if k >= 0 else "("
        word = re.search(r"(\w+)$", m[:k + 1])
        is_start = prev in "(,={;" or (word and word.group(1) in ("move", "return")) or m[max(0, k - 1):k + 1] == "=>"
        if not is_start:
            i += 2 if m[i:i + 2] == "||" else 1
            continue
        if m[i:i + 2] == "||":
            j = i + 1
        else:
            j = m.find("|", i + 1)
            if j < 0:
                break
        r = j + 1
        while r < L and m[r] in " \t\n":
            r += 1
        if m[r:r + 2] != "->":
            n += 1
        i = j + 1
    return n


def rewrite_break_value(text, block, applied):
    """R13: Verus has no `break <value>`. `let x = loop { .. break v; .. };` is written as
    `let x; loop { .. { x = v; break; } .. }` (deferred initialisation: the same single assignment)."""
    while True:
        m = R.mask(text)
        mm = re.search(r"\blet\s+(mut\s+)?(\w+)\s*=\s*loop\s*\{", m)
        if not mm:
            return text
        name = mm.group(2)
        bo = mm.end() - 1
        close = _paren_end(m, bo, "{", "}")
        body = text[bo:close + 1]
        mb = R.mask(body)
        out, last, n = [], 0, 0
        for b in re.finditer(r"\bbreak\s+([^;{}]+);", mb):
            out.append(body[last:b.start()])
            out.append("{ loop_value_%s = %s; break; }" % (name, body[b.start(1):b.end(1)].strip()))
            last = b.end()
            n += 1
        out.append(body[last:])
        if n == 0:
            raise R.LostAnchor("%s: break_value: no `break <value>;` in `let %s = loop`" % (block.path, name))
        body = "".join(out)
        # the trailing `;` of the let statement
        k = close + 1
        while k < len(text) and text[k] in " \t\n":
            k += 1
        end = k + 1 if k < len(text) and text[k] == ";" else close + 1
        text = text[:mm.start()] + "let loop_value_%s;\n        loop %s\n        let %s%s = loop_value_%s;" % (
            name, body, mm.group(1) or "", name, name) + text[end:]
        applied.add("R13 `let %s = loop { .. break v; }` -> deferred initialisation + plain break" % name)


def rewrite_mut_self(text, block, applied):
    """R11: Verus has no `mut self` receiver. `fn f(mut self, ..) { B }` is written as
    `fn f(self, ..) { let mut this = self; B[self := this] }` - the same move into a mutable local
    that `mut self` denotes."""
    m = R.mask(text)
    mm = re.search(r"\(\s*mut\s+self\b", m)
    if not mm:
        raise R.LostAnchor("%s: mutself: no `mut self` receiver" % (block.path,))
    body_open = m.index("{", mm.end())
    head = text[:mm.start()] + "(self" + text[mm.end():body_open]
    body = text[body_open:]
    mb = R.mask(body)
    out, last = [], 0
    for w in re.finditer(r"\bself\b", mb):
        out.append(body[last:w.start()])
        out.append("this")
        last = w.end()
    out.append(body[last:])
    body = "".join(out)
    body = "{\n    let mut this = self;" + body[1:]
    applied.add("R11 `mut self` receiver -> `let mut this = self;` and `this` for `self` in the body")
    return head + body


def strip_comments(text):
    m = R.mask(text, strings=False, comments=True)
    # drop lines that became empty because they only held a comment
    lines_o = text.split("\n")
    lines_m = m.split("\n")
    out = []
    for lo, lm in zip(lines_o, lines_m):
        if lo.strip() and not lm.strip():
            continue
        out.append(lm.rstrip())
    return "\n".join(out)


def strip_attrs(text, applied):
    """R1: `#[...]` attributes inside the item (e.g. `#[error("..")]` on enum variants, `#[cfg_attr(..)]`)."""
    while True:
        m = R.mask(text)
        mm = re.search(r"#\s*\[", m)
        if not mm:
            return text
        close = _paren_end(m, mm.end() - 1, "[", "]")
        end = close + 1
        # swallow the rest of the line if it is blank
        k = end
        while k < len(text) and text[k] in " \t":
            k += 1
        if k < len(text) and text[k] == "\n":
            end = k + 1
        text = text[:mm.start()] + text[end:]
        applied.add("R1 inner attributes dropped")


def strip_vis(text, applied):
    m = R.mask(text)
    edits = []
    for mm in re.finditer(r"\bpub(\s*\([^)]*\))?\s+", m):
        edits.append((mm.start(), mm.end(), ""))
    if edits:
        applied.add("R2 visibility dropped")
    for a, b, r in reversed(edits):
        text = text[:a] + r + text[b:]
    return text


def _take_backticked(s):
    """Parses  `a` => `b` [xN]   or  `a`  ; returns (a, b, n)."""
    m = re.match(r"\s*`((?:[^`])*)`\s*(?:=>\s*`((?:[^`])*)`)?\s*(?:x(\d+))?\s*$", s, re.S)
    if not m:
        raise R.LostAnchor("bad directive operand: %r" % s)
    return m.group(1), m.group(2), int(m.group(3) or 1)


def process_fn(text, block, applied, canary=False):
    """text: item source from `fn`-ish keyword to closing brace. Returns verus text."""
    d = block.directives
    text = strip_comments(text)
    applied.add("R1 comments/doc/attributes dropped")
    text = strip_attrs(text, applied)
    text = strip_vis(text, applied)
    # qualifiers
    m = R.mask(text)
    hdr = re.match(r"\s*((?:(?:const|unsafe)\s+)*)fn\b", m)
    if hdr and "const" in hdr.group(1) and not any(k == "keepconst" for k, _ in d):
        text = text[:hdr.start(1)] + hdr.group(1).replace("const", "").lstrip() + text[hdr.end(1):]
        applied.add("R2 `const` qualifier of fn dropped")
    # user substitutions / drops first (they refer to source text)
    for key, val in d:
        if key == "subst":
            old, new, n = _take_backticked(val)
            if text.count(old) != n:
                raise R.LostAnchor("%s: subst %r expected %d occurrence(s), found %d" % (block.path, old, n, text.count(old)))
            text = text.replace(old, new)
            applied.add("R6/R8 subst `%s` => `%s`" % (old, new))
        elif key == "rename":
            # R2: module-path flattening / disambiguation of an item name - every occurrence, any count
            old, new, _n = _take_backticked(val)
            if old in text:
                text = text.replace(old, new)
                applied.add("R2 path `%s` written as `%s`" % (old, new))
        elif key == "resub":
            # R8, count-free: regular-expression rewrite of a purely syntactic form (e.g. turbofish arity)
            old, new, _n = _take_backticked(val)
            text2 = re.sub(old, new, text)
            if text2 != text:
                applied.add("R8 regex rewrite `%s` => `%s`" % (old, new))
            text = text2
        elif key == "substw":
            # like subst, but whitespace-insensitive (runs of whitespace in the pattern match any whitespace)
            old, new, n = _take_backticked(val)
            rx = re.compile(r"\s*".join(re.escape(tok) for tok in re.findall(r"\w+|[^\w\s]", old)))
            found = rx.findall(text)
            if len(found) != n:
                raise R.LostAnchor("%s: substw %r expected %d occurrence(s), found %d" % (block.path, old, n, len(found)))
            text = rx.sub(lambda m: new, text)
            applied.add("R6/R8 subst (whitespace-insensitive) `%s` => `%s`" % (" ".join(old.split()), " ".join(new.split())))
        elif key == "drop":
            old, _, n = _take_backticked(val)
            if text.count(old) != n:
                raise R.LostAnchor("%s: drop %r expected %d occurrence(s), found %d" % (block.path, old, n, text.count(old)))
            text = text.replace(old, "")
            applied.add("R7 dropped `%s`" % old)
    for key, val in d:
        if key == "body_from":
            # R12: only a SUFFIX of the body is taken: everything between the opening brace and
            # the anchor is dropped (stated in the unit: that prefix is not under contract)
            anchor, _new, _n = _take_backticked(val)
            mt = R.mask(text)
            bo = None
            par = 0
            for i, ch in enumerate(mt):
                if ch in "([":
                    par += 1
                elif ch in ")]":
                    par -= 1
                elif ch == "{" and par == 0:
                    bo = i
                    break
            if bo is None or text.count(anchor) != 1 or text.index(anchor) < bo:
                raise R.LostAnchor("%s: body_from anchor %r not found exactly once in the body" % (block.path, anchor))
            dropped = text[bo + 1:text.index(anchor)]
            text = text[:bo + 1] + "\n        " + text[text.index(anchor):]
            applied.add("R12 body prefix dropped (%d lines before `%s`): not under contract" % (dropped.count("\n"), anchor))
    if any(k == "expand_matches" for k, _ in d):
        text = expand_matches(text, applied)
    if any(k == "break_value" for k, _ in d):
        text = rewrite_break_value(text, block, applied)
    if any(k == "mutself" for k, _ in d):
        text = rewrite_mut_self(text, block, applied)
    if any(k == "droplog" for k, _ in d):
        text = drop_log_macros(text, applied)
    if any(k == "deawait" for k, _ in d):
        text = drop_awaits(text, applied)
    text = rewrite_macros(text, applied)
    text = fold_literal_shifts(text, applied)

    m = R.mask(text)
    body_open = None
    par = 0
    for i, ch in enumerate(m):
        if ch in "([":
            par += 1
        elif ch in ")]":
            par -= 1
        elif ch == "{" and par == 0:
            body_open = i
            break
    if body_open is None:
        raise R.LostAnchor("%s: no body" % (block.path,))
    header, body = text[:body_open], text[body_open:]
    if any(k == "bodyless" for k, _ in d):
        # only the SIGNATURE is taken from the source (the item is `external_body`: its contract is
        # discharged elsewhere); the body is not needed and may use items the unit does not carry
        body = "{\n    unimplemented!()\n}"
        applied.add("body dropped (signature only; external_body)")
    mh = m[:body_open]
    # R3 return type naming
    ret_name = "r"
    for key, val in d:
        if key == "ret":
            ret_name = val.strip()
    arrow = None
    par = 0
    for i in range(len(mh) - 1):
        if mh[i] in "(":
            par += 1
        elif mh[i] in ")":
            par -= 1
        elif mh[i:i + 2] == "->" and par == 0:
            arrow = i
    where = re.search(r"\bwhere\b", mh)
    if arrow is not None:
        ret_end = where.start() if where and where.start() > arrow else len(header)
        ret_ty = header[arrow + 2:ret_end].strip()
        header = header[:arrow] + "-> (%s: %s)\n" % (ret_name, ret_ty) + header[ret_end:]
        applied.add("R3 named return value")
    clauses = ""
    for kind in ("requires", "ensures", "decreases"):
        vals = [v for k, v in d if k == kind]
        if vals:
            clauses += "    %s\n        %s,\n" % (kind, ",\n        ".join(v.strip().rstrip(",") for v in vals))
    header = header.rstrip() + "\n" + clauses
    # body edits: loops, prologue, inserts
    mb = R.mask(body)
    edits = []
    loops = [mm for mm in re.finditer(r"\b(loop|while|for)\b", mb)]
    loop_dirs = {}
    for key, val in d:
        mm = re.match(r"loop (\d+) (\w+)$", key)
        if mm:
            loop_dirs.setdefault(int(mm.group(1)), []).append((mm.group(2), val))
    for n, items in loop_dirs.items():
        if n < 1 or n > len(loops):
            # the loop the invariant was written for is gone (e.g. rewritten as straight-line code):
            # the function is still checked against its contract, without that ghost text
            applied.add("G loop %d invariants skipped: the current body has %d loop(s)" % (n, len(loops)))
            continue
        lm = loops[n - 1]
        k = lm.end()
        par = 0
        while k < len(mb):
            if mb[k] in "([":
                par += 1
            elif mb[k] in ")]":
                par -= 1
            elif mb[k] == "{" and par == 0:
                break
            k += 1
        txt = "\n"
        for kind in ("invariant_except_break", "invariant", "ensures", "decreases"):
            vals = [v for kk, v in items if kk == kind]
            if vals:
                txt += "        %s\n            %s,\n" % (kind, ",\n            ".join(v.strip().rstrip(",") for v in vals))
        edits.append((k, k, txt))
    pro = [v for k, v in d if k == "prologue"]
    ins = "\n"
    if canary:
        ins += "    proof { assert(false); } // VERIF-CANARY\n"
    for p in pro:
        ins += "    " + p.strip() + "\n"
    edits.append((1, 1, ins))
    for key, val in d:
        if key in ("insert_after", "insert_before"):
            old, new, n = _take_backticked(val)
            if body.count(old) != 1:
                raise R.LostAnchor("%s: %s anchor %r found %d times" % (block.path, key, old, body.count(old)))
            pos = body.index(old)
            if key == "insert_after":
                pos += len(old)
            edits.append((pos, pos, "\n" + new + "\n"))
    epi = [v for k, v in d if k == "epilogue"]
    if epi:
        # ghost text checked at the END of a unit-returning body (the final state of a consumed `self`)
        end_brace = body.rstrip().rfind("}")
        edits.append((end_brace, end_brace, "\n    " + "\n    ".join(e.strip() for e in epi) + "\n"))
    for a, b, r in sorted(edits, key=lambda e: -e[0]):
        body = body[:a] + r + body[b:]
    attrs = "".join(v.strip() + "\n" for k, v in d if k == "attr")
    block.opaque_closures = count_opaque_closures(header + body)
    return attrs + header + body


def process_other(text, lead, block, applied):
    """struct / enum / const / type items: copied verbatim apart from R1/R2 and declared substs."""
    text = strip_comments(text)
    text = strip_attrs(text, applied)
    if not any(k == "keepvis" for k, _ in block.directives):
        text = strip_vis(text, applied)
    applied.add("R1 comments/doc/attributes dropped")
    for key, val in block.directives:
        if key == "subst":
            old, new, n = _take_backticked(val)
            if text.count(old) != n:
                raise R.LostAnchor("%s: subst %r expected %d, found %d" % (block.path, old, n, text.count(old)))
            text = text.replace(old, new)
            applied.add("R6/R8 subst `%s` => `%s`" % (old, new))
        elif key == "rename":
            old, new, _n = _take_backticked(val)
            if old in text:
                text = text.replace(old, new)
                applied.add("R2 path `%s` written as `%s`" % (old, new))
    derives = []
    dm = re.search(r"#\[derive\(([^)]*)\)\]", lead)
    if dm:
        for t in dm.group(1).split(","):
            t = t.strip()
            if t in ("Copy", "Clone", "PartialEq", "Eq"):
                derives.append(t)
    attrs = "".join(v.strip() + "\n" for k, v in block.directives if k == "attr")
    if derives and not any(k == "noderive" for k, _ in block.directives):
        attrs += "#[derive(%s)]\n" % ", ".join(derives)
        applied.add("R1 derive list reduced to %s" % derives)
    return attrs + text


_src_cache = {}


def _load(file):
    p = os.path.join(REPO, file)
    if p not in _src_cache:
        src = open(p).read()
        _src_cache[p] = (src, R.mask(src))
    return _src_cache[p]


def generate(unit, canary=False):
    """Builds the Verus file for a unit from the current /repo. Returns (text, manifest, fn_spans, canary_lines)."""
    _src_cache.clear()
    tpl = open(os.path.join(UNITS, unit + ".rs.tpl")).read()
    parts = parse_template(tpl)
    out_lines = []
    manifest = []
    fn_spans = []      # (first_line, last_line, label)
    canary_lines = []

    def cur_line():
        return sum(s.count("\n") for s in out_lines) + 1

    for kind, val in parts:
        if kind == "text":
            if canary and "//probe " in val:
                # `//probe <proof statements>`: in the canary file this becomes a proof fn ending in
                # `assert(false)` that MUST fail - guards ghost-only units (axioms) against vacuity
                new_val = []
                for ln in val.split("\n"):
                    st = ln.strip()
                    if st.startswith("//probe "):
                        first = cur_line() + sum(x.count("\n") + 1 for x in new_val)
                        new_val.append("proof fn verif_probe_%d(%s) { %s assert(false); } // VERIF-CANARY" % (
                            len(canary_lines), st[len("//probe "):].split("|", 1)[0].strip(), st.split("|", 1)[1].strip()))
                        canary_lines.append((first, "probe: " + st[:60]))
                    else:
                        new_val.append(ln)
                val = "\n".join(new_val)
            out_lines.append(val)
            continue
        b = val
        src, masked = _load(b.file)
        try:
            start, body_open, end = R.locate(src, masked, b.path)
        except R.LostAnchor:
            if any(k == "optional" for k, _ in b.directives):
                # an item the code may no longer have (e.g. a renamed private constant): the unit
                # goes on without it; whatever the code now refers to is looked up automatically
                manifest.append({"item": b.file + " >> " + " >> ".join(b.path), "source_lines": [0, 0], "sha256": "",
                                 "rewrites": ["optional item absent in the current source: skipped"], "contract": []})
                continue
            raise
        lead = R.leading(src, masked, b.path)
        item = src[start:end]
        applied = set()
        last = b.path[-1]
        is_fn = last.startswith("fn ")
        if is_fn:
            do_canary = canary and any(k in ("requires", "ensures") for k, _ in b.directives) and not any(
                k == "nocanary" for k, _ in b.directives)
            txt = process_fn(item, b, applied, canary=do_canary)
        else:
            txt = process_other(item, lead, b, applied)
        first = cur_line()
        out_lines.append(txt + "\n")
        lastl = cur_line() - 1
        label = b.file + " >> " + " >> ".join(b.path)
        fn_spans.append((first, lastl, label))
        if is_fn and canary:
            for off, l in enumerate(txt.split("\n")):
                if "VERIF-CANARY" in l:
                    canary_lines.append((first + off, label))
        manifest.append({
            "item": label,
            "source_lines": [src.count("\n", 0, start) + 1, src.count("\n", 0, end) + 1],
            "sha256": hashlib.sha256(item.encode()).hexdigest()[:16],
            "rewrites": sorted(applied),
            "contract": [k for k, _ in b.directives if k in ("requires", "ensures", "decreases") or k.startswith("loop")],
            "opaque_closures": getattr(b, "opaque_closures", 0),
            "opaque_closures_expected": max([int(v.strip() or 0) for k, v in b.directives if k == "opaque_closures"] or [0]),
        })
    return "".join(out_lines), manifest, fn_spans, canary_lines


RE_MISSING = re.compile(
    r"no (?:method|function or associated item|associated function or constant|associated item|variant, associated function, or constant) named `(\w+)` found for "
    r"(?:enum|struct|unit struct) `([\w:]+?)(?:<[^`]*>)?`")


def _split_params(text):
    m = R.mask(text)
    parts, depth, last = [], 0, 0
    for i, ch in enumerate(m):
        if ch in "([{<":
            depth += 1
        elif ch in ")]}>":
            depth -= 1
        elif ch == "," and depth == 0:
            parts.append(text[last:i])
            last = i + 1
    parts.append(text[last:])
    return [p.strip() for p in parts if p.strip()]


def _helper_text(file, desc, item, fn_name, impl_hdr, known=()):
    applied = set()
    txt = strip_comments(item)
    txt = strip_attrs(txt, applied)
    txt = strip_vis(txt, applied)
    txt = re.sub(r"^(\s*)((?:const|unsafe)\s+)*fn\b", r"\1fn", txt)
    txt = rewrite_macros(txt, applied)
    m2 = R.mask(txt)
    po = m2.index("(")
    pc = _paren_end(m2, po)
    params = txt[po + 1:pc]
    bo = m2.index("{", pc)
    ret = txt[pc + 1:bo]
    rm = re.search(r"->\s*(.+?)\s*$", ret.strip(), re.S)
    if not rm:
        return None
    ret_ty = rm.group(1)
    generics = txt[m2.index("fn") + 2:po].replace(fn_name, "", 1).strip()
    body_txt = txt[bo:]
    names = []
    for prm in _split_params(params):
        if re.match(r"(&\s*)?(mut\s+)?self$", prm):
            names.append("self")
        else:
            names.append(re.sub(r"^mut\s+", "", prm.split(":")[0].strip()))
    spec_params = re.sub(r"\bmut\s+", "", params)
    call = ("self.%s__spec(%s)" % (fn_name, ", ".join(n for n in names if n != "self"))) if "self" in names \
        else ("Self::%s__spec(%s)" % (fn_name, ", ".join(names)))
    # inside the spec twin, calls to OTHER auto-extracted helpers go to their spec twins
    spec_body = body_txt
    for kn in known:
        spec_body = re.sub(r"(\.|::)%s\(" % re.escape(kn), r"\1%s__spec(" % kn, spec_body)
    return ("\n// auto-extracted helper (not listed in the unit): %s\n%s {\n"
            "    spec fn %s__spec%s(%s) -> %s %s\n\n"
            "    fn %s%s(%s) -> (r: %s)\n        ensures r == %s,\n    %s\n}\n") % (
        desc, impl_hdr, fn_name, generics, spec_params, ret_ty, spec_body,
        fn_name, generics, params, ret_ty, call, body_txt)


def auto_helper(file, type_name, fn_name, known=()):
    """A helper function that the extracted code calls but the unit does not list (typically
    introduced by a refactoring): copied verbatim (R1-R5) into an `impl` block together with a
    `spec fn <name>__spec` holding the SAME body text and `ensures r == <name>__spec(..)`, so that a
    pure helper is transparent to its callers. Returns the text, or None if it cannot be located."""
    src, masked = _load(file)
    for (k, start, header, body, end) in R.items_in(masked, 0, len(src)):
        if k != "impl":
            continue
        hn = R.header_name("impl", header)
        # inherent impl of the type (optionally generic)
        if not re.match(r"impl(<[^>]*>)?%s(<.*>)?$" % re.escape(type_name), hn.replace(" ", "")):
            continue
        for (k2, s2, h2, b2, e2) in R.items_in(masked, body + 1, end - 1):
            if k2 == "fn" and R.header_name("fn", h2) == fn_name:
                impl_hdr = src[start:body].strip()
                impl_hdr = re.sub(r"^pub(\([^)]*\))?\s+", "", impl_hdr)
                return _helper_text(file, "%s >> impl %s >> fn %s" % (file, type_name, fn_name), src[s2:e2], fn_name, impl_hdr, known)
    return None


def find_const_literal(files, type_name, name):
    """Initializer text of `const <name>` in an inherent impl of <type_name>, if it is a plain literal."""
    for file in files:
        src, masked = _load(file)
        for (k, start, header, body, end) in R.items_in(masked, 0, len(src)):
            if k != "impl" or body is None:
                continue
            hn = R.header_name("impl", header)
            if not re.match(r"impl(<[^>]*>)?%s(<.*>)?$" % re.escape(type_name), hn.replace(" ", "")):
                continue
            for (k2, s2, h2, b2, e2) in R.items_in(masked, body + 1, end - 1):
                if k2 == "const" and R.header_name("const", h2) == name:
                    mm = re.search(r"=\s*([0-9][0-9_a-zA-Z]*)\s*;", src[s2:e2])
                    if mm:
                        return mm.group(1)
    return None


def auto_helper_near(label, fn_name, gen_text, gen_line, known=(), ty=None):
    """Same, located by POSITION: the helper is searched in the source `impl` block (then module)
    that the calling extracted function came from, and emitted under the `impl` header that
    encloses the caller in the generated file (units re-home impls of type aliases)."""
    parts = [p.strip() for p in label.split(">>")]
    file, path = parts[0], parts[1:]
    src, masked = _load(file)
    item = None
    for cut in range(len(path) - 1, -1, -1):
        try:
            st, bo, en = R.locate(src, masked, path[:cut] + ["fn " + fn_name])
        except R.LostAnchor:
            continue
        # locate() includes leading docs/attributes: cut to the fn keyword via items_in
        for (k2, s2, h2, b2, e2) in R.items_in(masked, st, en):
            if k2 == "fn" and R.header_name("fn", h2) == fn_name:
                item = src[s2:e2]
                break
        if item:
            where = " >> ".join([file] + path[:cut] + ["fn " + fn_name])
            break
    const_item = None
    if not item:
        for cut in range(len(path) - 1, -1, -1):
            try:
                st, bo, en = R.locate(src, masked, path[:cut] + ["const " + fn_name])
            except R.LostAnchor:
                continue
            for (k2, s2, h2, b2, e2) in R.items_in(masked, st, en):
                if k2 == "const" and R.header_name("const", h2) == fn_name:
                    const_item = src[s2:e2]
                    break
            if const_item:
                where = " >> ".join([file] + path[:cut] + ["const " + fn_name])
                break
    hdr_override = None
    if not item and not const_item:
        # sibling impl blocks of the same module (e.g. an inherent impl next to a trait impl); the
        # helper is emitted under an impl of ITS OWN type (the type the compiler named)
        mods = [seg for seg in path if seg.startswith("mod ")]
        try:
            if mods:
                mst, mbo, men = R.locate(src, masked, mods)
                lo, hi = mbo + 1, men - 1
            else:
                lo, hi = 0, len(src)
            for (k1, s1, h1, b1, e1) in R.items_in(masked, lo, hi):
                if k1 != "impl" or b1 is None:
                    continue
                hname = R.header_name("impl", h1)
                if ty and not re.search(r"\b%s\b" % re.escape(ty), hname):
                    continue
                selfty = hname.split(" for ")[-1] if " for " in hname else re.sub(r"^impl(<[^>]*>)?\s*", "", hname)
                for (k2, s2, h2, b2, e2) in R.items_in(masked, b1 + 1, e1 - 1):
                    if k2 == "fn" and R.header_name("fn", h2) == fn_name and not item:
                        item = src[s2:e2]
                        hdr_override = "impl " + selfty.strip()
                        where = " >> ".join([file] + mods + [R.header_name("impl", h1), "fn " + fn_name])
                    elif k2 == "const" and R.header_name("const", h2) == fn_name and not const_item:
                        const_item = src[s2:e2]
                        hdr_override = "impl " + selfty.strip()
                        where = " >> ".join([file] + mods + [R.header_name("impl", h1), "const " + fn_name])
        except R.LostAnchor:
            pass
    if not item and not const_item:
        return None, None
    lines = gen_text.split("\n")
    hdr = None
    for i in range(min(gen_line, len(lines)) - 1, -1, -1):
        mm = re.match(r"^(impl\b.*?)\s*\{\s*$", lines[i])
        if mm:
            hdr = mm.group(1)
            break
    if hdr_override:
        hdr = hdr_override
    if hdr is None:
        return None, None
    if const_item:
        applied = set()
        txt = strip_vis(strip_attrs(strip_comments(const_item), applied), applied)
        return ("\n// auto-extracted constant (not listed in the unit): %s\n%s {\n    %s\n}\n" % (where, hdr, txt.strip())), where
    return _helper_text(file, where, item, fn_name, hdr, known), where


RE_ERR = re.compile(r"^(error|warning)(?:\[\w+\])?: (.*)$")
RE_LOC = re.compile(r"^\s*--> (.*?):(\d+):(\d+)")


def parse_diagnostics(stderr, fn_spans):
    errs = []
    cur = None
    for line in stderr.splitlines():
        m = RE_ERR.match(line)
        if m:
            if m.group(1) == "error" and not m.group(2).startswith("aborting due to"):
                cur = {"message": m.group(2), "line": None, "function": ""}
                errs.append(cur)
            else:
                cur = None
            continue
        m = RE_LOC.match(line)
        if m and cur is not None and cur["line"] is None:
            cur["line"] = int(m.group(2))
            for a, b, label in fn_spans:
                if a <= cur["line"] <= b:
                    cur["function"] = label
    return errs


def _run_verus(path, timeout):
    cmd = ["verus", "--multiple-errors", "50", "--output-json", "--time", path]
    t0 = time.time()
    try:
        p = subprocess.run(cmd, stdout=subprocess.PIPE, stderr=subprocess.PIPE, timeout=timeout, text=True,
                           cwd=os.path.dirname(path))
        return p.returncode, p.stdout, p.stderr, time.time() - t0
    except subprocess.TimeoutExpired:
        return None, "", "timeout", time.time() - t0


def scan_assumptions(text):
    found = []
    for kw in ("external_body", "assume_specification", "admit()", "assume(", "external_fn_specification",
               "external_type_specification", "#[verifier::external]", "axiom"):
        c = text.count(kw)
        if c:
            found.append("%s x%d" % (kw, c))
    return found


def run_unit(unit, timeout=600, with_canary=True):
    os.makedirs(OUT, exist_ok=True)
    res = {"status": "undecided", "reason": "", "verified": 0, "errors": [], "time_s": 0.0, "functions": [],
           "extraction": [], "assumptions": [], "canary": None, "file": None, "raw": ""}
    try:
        text, manifest, spans, _ = generate(unit, canary=False)
    except R.LostAnchor as e:
        res["reason"] = "lost anchor: %s" % e
        return res
    except FileNotFoundError as e:
        res["reason"] = "lost anchor (file): %s" % e
        return res
    path = os.path.join(OUT, unit + ".rs")
    with open(path, "w") as f:
        f.write(text)
    res["file"] = path
    res["extraction"] = manifest
    res["functions"] = [m["item"] for m in manifest if " >> fn " in m["item"] or m["item"].split(" >> ")[-1].startswith("fn ")]
    res["assumptions"] = ["verus unit %s: %s" % (unit, a) for a in scan_assumptions(text)]
    rc, out, err, wall = _run_verus(path, timeout)
    # helper functions introduced next to the extracted code (refactorings): pull them in
    # automatically, transparent via an auto-generated spec twin (see auto_helper)
    helpers_added = []
    done_pairs = set()
    const_inline = {}         # (type, NAME) -> literal, for constants referenced inside auto-extracted helpers
    helper_reqs = []          # (fn_name, type name, label of the calling block or None, generated line)
    base_text = text
    for _round in range(4):
        missing = set(RE_MISSING.findall(err or ""))
        if rc in (0, None) or not missing:
            break
        files = sorted(set(m_["item"].split(" >> ")[0] for m_ in manifest))
        # where each missing name was reported (first location per name)
        where_line = {}
        cur_name = None
        for ln_ in (err or "").splitlines():
            mm_ = RE_MISSING.search(ln_)
            if mm_:
                cur_name = mm_.group(1)
                continue
            ml_ = RE_LOC.match(ln_)
            if ml_ and cur_name and cur_name not in where_line:
                where_line[cur_name] = int(ml_.group(2))
                cur_name = None
        new_req = False
        for fn_name, ty in sorted(missing):
            ty = ty.split("::")[-1]
            gl = where_line.get(fn_name)
            fn_name = re.sub(r"(__spec)+$", "", fn_name)     # a spec twin asked for another helper's twin
            if (ty, fn_name) in done_pairs:
                continue
            done_pairs.add((ty, fn_name))
            label = None
            if gl is not None:
                for a_, b_, label_ in spans:
                    if a_ <= gl <= b_:
                        label = label_
                        break
            if label is None:
                lit = find_const_literal(files, ty, fn_name)
                if lit is not None:
                    const_inline[(ty, fn_name)] = lit
                    new_req = True
                    continue
            helper_reqs.append((fn_name, ty, label, gl))
            new_req = True
        if not new_req:
            break
        # (re)build ALL helpers with the full set of helper names known so far, so that each spec
        # twin calls the spec twins of the other helpers
        known = tuple(sorted({r_[0] for r_ in helper_reqs}))
        extra = ""
        helpers_added = []
        for fn_name, ty, label, gl in helper_reqs:
            h = None
            if label is not None:
                try:
                    h, where_ = auto_helper_near(label, fn_name, base_text, gl, known, ty)
                except Exception:
                    h = None
                if h:
                    extra += h
                    helpers_added.append(where_)
                    continue
            for f in files:
                try:
                    h = auto_helper(f, ty, fn_name, known)
                except Exception:
                    h = None
                if h:
                    extra += h
                    helpers_added.append("%s >> impl %s >> fn %s" % (f, ty, fn_name))
                    break
        for (cty, cname), lit in const_inline.items():
            # R6 inside helpers: `Self::CONST` / `Type::CONST` -> its literal
            extra = re.sub(r"\b(Self|%s(<[^>]*>)?)::%s\b" % (re.escape(cty), re.escape(cname)), lit, extra)
            helpers_added.append("constant %s::%s = %s inlined in the helpers" % (cty, cname, lit))
        if not extra:
            break
        marker = "} // verus!"
        if marker not in base_text:
            break
        text = base_text.replace(marker, extra + "\n" + marker, 1)
        with open(path, "w") as f:
            f.write(text)
        rc, out, err, wall2 = _run_verus(path, timeout)
        wall += wall2
    if helpers_added:
        res["auto_helpers"] = helpers_added
        res["assumptions"].append("verus unit %s: auto-extracted helper(s) with spec twin: %s" % (unit, ", ".join(helpers_added)))
    res["time_s"] = round(wall, 2)
    res["raw"] = (out or "")[-3000:] + "\n" + (err or "")[-6000:]
    if rc is None:
        res["reason"] = "verus timeout"
        return res
    try:
        j = json.loads(out)
        vr = j.get("verification-results", {})
        verified, nerr = vr.get("verified", 0), vr.get("errors", 0)
        if "times-ms" in j:
            res["smt_ms"] = j["times-ms"].get("smt", {}).get("total") if isinstance(j["times-ms"].get("smt"), dict) else None
    except Exception:
        res["reason"] = "verus produced no json (tool error): " + (err.strip().splitlines() or ["?"])[0]
        return res
    errs = parse_diagnostics(err, spans)
    res["verified"] = verified
    hard = [e for e in errs if re.search(r"not supported|unsupported|internal error|panicked|cannot find|mismatched types|expected|unresolved|rlimit|Resource limit", e["message"])]
    if vr.get("encountered-vir-error") or (rc != 0 and nerr == 0) or hard:
        res["reason"] = "verus could not process the unit (unsupported construct / type error / rlimit): " + \
            "; ".join(e["message"] for e in (hard or errs)[:3])
        res["errors"] = errs
        return res
    if nerr > 0:
        # Verus does not infer closure contracts: a failure inside a function that has MORE
        # contract-less closures than the unit expects (a closure introduced by the change) cannot be
        # told from a tool limit -> undecided for that function, never an alarm
        over = {m_["item"] for m_ in manifest if m_.get("opaque_closures", 0) > m_.get("opaque_closures_expected", 0)}
        real = [e for e in errs if e.get("function") not in over]
        if "// verif: counter-overflow-undecided" in text:
            # trace units over unbounded feeds: a counter that could only overflow after 2^64 reads is
            # not a violation of the unit's property; such a failure alone is left undecided
            real2 = [e for e in real if "arithmetic underflow/overflow" not in e.get("message", "")]
            if real and not real2:
                res["reason"] = "only arithmetic-overflow obligations failed in a unit whose property is not about arithmetic (marked counter-overflow-undecided)"
                res["errors"] = errs
                return res
            real = real2 or real
        if errs and not real:
            res["reason"] = "proof failed only in function(s) with a closure that carries no contract (Verus does not infer closure contracts; tool limit): " + \
                "; ".join(sorted({e.get("function") or "?" for e in errs}))[:400]
            res["errors"] = errs
            return res
        res["status"] = "failed"
        res["errors"] = real or errs
        return res
    if verified == 0:
        res["reason"] = "vacuity guard: zero verified items"
        return res
    res["status"] = "ok"
    # vacuity canary: assert(false) at the start of every contracted extracted body must fail everywhere
    if with_canary:
        try:
            ctext, _, cspans, clines = generate(unit, canary=True)
            if helpers_added and "} // verus!" in ctext:
                # same auto-extracted helpers as in the main run
                extra_all = text[text.index("// auto-extracted helper"):text.rindex("} // verus!")] if "// auto-extracted helper" in text else ""
                ctext = ctext.replace("} // verus!", extra_all + "\n} // verus!", 1)
            cpath = os.path.join(OUT, unit + "_canary.rs")
            with open(cpath, "w") as f:
                f.write(ctext)
            crc, cout, cerr, cwall = _run_verus(cpath, timeout)
            res["time_s"] = round(res["time_s"] + cwall, 2)
            cerrs = parse_diagnostics(cerr, cspans)
            err_lines = set(e["line"] for e in cerrs)
            # the reported span is the `assert(false)` on the canary line
            missing = [label for (ln, label) in clines if ln not in err_lines]
            res["canary"] = {"injected": len(clines), "failed_as_expected": len(clines) - len(missing), "vacuous": missing}
            if missing:
                res["status"] = "undecided"
                res["reason"] = "vacuity canary: assert(false) verified in " + ", ".join(missing)
        except R.LostAnchor as e:
            res["status"] = "undecided"
            res["reason"] = "canary generation: %s" % e
    return res


if __name__ == "__main__":
    import sys
    r = run_unit(sys.argv[1], with_canary="--no-canary" not in sys.argv)
    raw = r.pop("raw")
    print(json.dumps(r, indent=1))
    if r["status"] != "ok":
        print(raw)
