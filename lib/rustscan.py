"""Minimal Rust-aware scanner: masks comments/strings/chars, finds items and matching braces.
Used by the Verus extractor to copy item text from /repo verbatim."""
import re


class LostAnchor(Exception):
    pass


def mask(src, strings=True, comments=True):
    """Returns text of the same length where comments, string/char literal contents are replaced by
    spaces (newlines kept), so that braces/keywords found in it are code."""
    out = list(src)
    i, n = 0, len(src)
    in_comment = [False]

    def blank(a, b):
        if in_comment[0] and not comments:
            return
        if not in_comment[0] and not strings:
            return
        for k in range(a, b):
            if out[k] != "\n":
                out[k] = " "

    while i < n:
        c = src[i]
        if src.startswith("//", i):
            j = src.find("\n", i)
            j = n if j < 0 else j
            in_comment[0] = True
            blank(i, j)
            in_comment[0] = False
            i = j
        elif src.startswith("/*", i):
            depth, j = 1, i + 2
            while j < n and depth:
                if src.startswith("/*", j):
                    depth += 1
                    j += 2
                elif src.startswith("*/", j):
                    depth -= 1
                    j += 2
                else:
                    j += 1
            in_comment[0] = True
            blank(i, j)
            in_comment[0] = False
            i = j
        elif c == '"' or (c in "br" and re.match(r'b?r#*"|b"', src[i:i + 8]) and (i == 0 or not (src[i - 1].isalnum() or src[i - 1] == "_"))):
            m = re.match(r'(b?)(r(#*))?"', src[i:])
            if not m:
                i += 1
                continue
            raw = m.group(2) is not None
            hashes = m.group(3) or ""
            j = i + m.end()
            if raw:
                end = src.find('"' + hashes, j)
                end = n if end < 0 else end
                blank(j, end)
                i = end + 1 + len(hashes)
            else:
                while j < n and src[j] != '"':
                    j += 2 if src[j] == "\\" else 1
                blank(i + m.end(), j)
                i = j + 1
        elif c == "'":
            # char literal or lifetime
            m = re.match(r"'(\\.[^']*|[^'\\])'", src[i:])
            if m:
                blank(i + 1, i + m.end() - 1)
                i += m.end()
            else:
                i += 1
        else:
            i += 1
    return "".join(out)


def match_brace(masked, open_idx):
    assert masked[open_idx] == "{"
    depth = 0
    for k in range(open_idx, len(masked)):
        ch = masked[k]
        if ch == "{":
            depth += 1
        elif ch == "}":
            depth -= 1
            if depth == 0:
                return k
    raise LostAnchor("unbalanced braces")


ITEM_RE = re.compile(
    r"(?P<vis>\bpub(?:\s*\([^)]*\))?\s+)?"
    r"(?P<quals>(?:(?:const|async|unsafe|default)\s+)*)"
    r"(?P<kind>fn|struct|enum|trait|impl|mod|const|static|type|macro_rules!)\b")


def items_in(masked, lo, hi):
    """Yields (kind, header_start, name_or_header, body_open or None, end) for items whose header
    starts at brace depth 0 within masked[lo:hi]."""
    k = lo
    depth = 0
    while k < hi:
        ch = masked[k]
        if ch == "{":
            k = match_brace(masked, k) + 1
            continue
        m = ITEM_RE.match(masked, k) if (k == lo or not (masked[k - 1].isalnum() or masked[k - 1] == "_")) else None
        if m and m.end() <= hi:
            kind = m.group("kind")
            # `const` as a qualifier of fn is consumed by quals; a bare `const NAME` is an item
            # find end: first `;` or `{` at paren/bracket/angle-agnostic level
            j = m.end()
            par = 0
            while j < hi:
                cj = masked[j]
                if cj in "([":
                    par += 1
                elif cj in ")]":
                    par -= 1
                elif cj == ";" and par == 0:
                    break
                elif cj == "{" and par == 0:
                    break
                j += 1
            if j >= hi:
                break
            header = masked[m.start():j]
            if masked[j] == "{" and kind in ("const", "static", "type"):
                # e.g. `const X: T = Foo { .. };`  -> run to the terminating `;`
                jj = j
                while jj < hi and masked[jj] != ";":
                    if masked[jj] == "{":
                        jj = match_brace(masked, jj)
                    jj += 1
                yield (kind, m.start(), header, None, jj + 1)
                k = jj + 1
                continue
            if masked[j] == ";":
                yield (kind, m.start(), header, None, j + 1)
                k = j + 1
            else:
                end = match_brace(masked, j)
                yield (kind, m.start(), header, j, end + 1)
                k = end + 1
            continue
        k += 1


def norm(s):
    s = re.sub(r"\s+", " ", s.strip())
    s = re.sub(r"\s*([<>,:&()\[\]])\s*", r"\1", s)
    return s


def header_name(kind, header):
    if kind == "impl":
        header = re.sub(r"^\s*(?:(?:unsafe|default)\s+)*", "", header)
        return norm(re.split(r"\bwhere\b", header)[0])
    m = re.search(r"\b%s\s+(r#)?([A-Za-z_][A-Za-z0-9_]*)" % re.escape(kind), header)
    return m.group(2) if m else None


def locate(src, masked, path):
    """path: list of segments like 'mod r#async', 'impl<'a> Frame<'a>', 'fn read', 'struct VarInt',
    'const DATA'. Returns (start, body_open, end) of the item, start including leading attributes
    and doc comments."""
    lo, hi = 0, len(src)
    found = None
    for seg in path:
        kind, _, rest = seg.partition(" ")
        if kind.startswith("impl"):
            want_kind, want = "impl", norm(seg)
        else:
            want_kind, want = kind, rest.strip().replace("r#", "")
        matches = []
        for (k, start, header, body, end) in items_in(masked, lo, hi):
            if k != want_kind:
                continue
            name = header_name(k, header)
            if k == "impl":
                # compare without visibility
                if name == want:
                    matches.append((start, body, end))
            elif name == want:
                matches.append((start, body, end))
        if len(matches) != 1:
            raise LostAnchor("segment %r of %r matched %d items" % (seg, path, len(matches)))
        start, body, end = matches[0]
        found = (start, body, end)
        if body is not None:
            lo, hi = body + 1, end - 1
    return found


def leading(src, masked, path):
    """Text between the previous sibling item (or the container's opening brace) and the item:
    its doc comments and attributes."""
    lo, hi = 0, len(src)
    lead = ""
    for seg in path:
        kind, _, rest = seg.partition(" ")
        if kind.startswith("impl"):
            want_kind, want = "impl", norm(seg)
        else:
            want_kind, want = kind, rest.strip().replace("r#", "")
        prev_end = lo
        hit = None
        for (k, start, header, body, end) in items_in(masked, lo, hi):
            if k == want_kind and header_name(k, header) == want:
                hit = (start, body, end)
                lead = src[prev_end:start]
                break
            prev_end = end
        if hit is None:
            raise LostAnchor("segment %r not found" % seg)
        if hit[1] is not None:
            lo, hi = hit[1] + 1, hit[2] - 1
    return lead
