"""Kani back end: run harnesses compiled into the real crates, parse results, produce replays."""
import fcntl
import json
import os
import re
import resource
import subprocess
import time
import hashlib

VERIF = os.path.dirname(os.path.dirname(os.path.abspath(__file__)))
REPO = os.environ.get("VERIF_REPO", "/repo")
BUILD = os.path.join(VERIF, ".build")

CRATES = {
    "proto": {"pkg": "wtransport-proto", "features": ["--features", "async"], "target": os.path.join(BUILD, "kani-proto")},
    "driver": {"pkg": "wtransport", "features": [], "target": os.path.join(BUILD, "kani-driver")},
}

ENV = dict(os.environ, CARGO_NET_OFFLINE="true", CARGO_TERM_COLOR="never")


def _limits():
    # per-process address-space cap so that one runaway CBMC cannot take the machine down
    gb = int(os.environ.get("VERIF_KANI_MEM_GB", "20"))
    resource.setrlimit(resource.RLIMIT_AS, (gb << 30, gb << 30))


def base_cmd(crate):
    c = CRATES[crate]
    return ["cargo", "kani", "-p", c["pkg"], *c["features"], "-Z", "function-contracts", "-Z", "stubbing",
            "--target-dir", c["target"], "--output-format", "terse"]


def checker_cmd_text(crate):
    return "cd /repo && CARGO_NET_OFFLINE=true " + " ".join(base_cmd(crate)) + " -j N --harness <each harness>"


class Lock:
    def __init__(self, crate):
        os.makedirs(BUILD, exist_ok=True)
        self.path = os.path.join(BUILD, "kani-%s.lock" % crate)

    def __enter__(self):
        self.f = open(self.path, "w")
        fcntl.flock(self.f, fcntl.LOCK_EX)
        return self

    def __exit__(self, *a):
        fcntl.flock(self.f, fcntl.LOCK_UN)
        self.f.close()


RE_CHECKING = re.compile(r"^(?:Thread (\d+): )?Checking harness (\S+?)\.\.\.$")
RE_THREAD_ONLY = re.compile(r"^Thread (\d+): *$")
RE_STUB = re.compile(r"^(?:Thread (\d+): )?\s+- (Verified stub|Stub): (.*)$")
RE_SUMMARY = re.compile(r"^ \*\* (\d+) of (\d+) failed(?: \((.*)\))?")
RE_COVER = re.compile(r"^ \*\* (\d+) of (\d+) cover properties satisfied")
RE_TIME = re.compile(r"^Verification Time: ([0-9.]+)s")


def parse_output(text):
    """Returns {harness_full_name: result} from (possibly -j interleaved) terse output."""
    results = {}
    current = {}      # thread -> harness
    block_thread = "0"
    compile_error = None
    for line in text.splitlines():
        m = RE_CHECKING.match(line)
        if m:
            t = m.group(1) or "0"
            current[t] = m.group(2)
            results[m.group(2)] = {"status": "undecided", "reason": "no result block", "checks": 0, "failed": 0,
                                   "failed_checks": [], "covers": None, "time_s": 0.0, "stubs": []}
            block_thread = t
            continue
        m = RE_STUB.match(line)
        if m:
            t = m.group(1) or block_thread
            h = current.get(t)
            if h:
                results[h]["stubs"].append(m.group(2) + ": " + m.group(3).strip())
            continue
        m = RE_THREAD_ONLY.match(line)
        if m:
            block_thread = m.group(1)
            continue
        h = current.get(block_thread)
        if line.startswith("error") and ("could not compile" in line or "Failed to execute cargo" in line or "error[E" in line or line.startswith("error:")):
            compile_error = (compile_error or "") + line + "\n"
        if not h:
            continue
        r = results[h]
        m = RE_SUMMARY.match(line)
        if m:
            r["failed"] = int(m.group(1))
            r["checks"] = int(m.group(2))
            r["note"] = m.group(3) or ""
            continue
        m = RE_COVER.match(line)
        if m:
            r["covers"] = (int(m.group(1)), int(m.group(2)))
            continue
        if line.startswith("Failed Checks: "):
            r["failed_checks"].append({"description": line[len("Failed Checks: "):].strip(), "location": ""})
            continue
        if line.startswith(" File: ") and r["failed_checks"]:
            r["failed_checks"][-1]["location"] = line.strip()
            continue
        if line.startswith("VERIFICATION:- "):
            verdict = line[len("VERIFICATION:- "):].strip()
            if verdict.startswith("SUCCESSFUL"):
                r["status"] = "ok"
                r["reason"] = ""
            elif verdict.startswith("FAILED"):
                r["status"] = "failed"
                r["reason"] = ""
            else:
                r["status"] = "undecided"
                r["reason"] = verdict
            continue
        if line.startswith("CBMC failed") or "out of memory" in line.lower() or "CBMC timed out" in line:
            r["status"] = "undecided"
            r["reason"] = line.strip()
            continue
        m = RE_TIME.match(line)
        if m:
            r["time_s"] = float(m.group(1))
    return results, compile_error


def classify(r):
    """Refines a parsed result: failures consisting only of unwinding assertions (or unsupported
    constructs) are 'undecided', unsatisfied covers make a passing harness 'undecided' (vacuity)."""
    if r["status"] == "failed":
        real = [c for c in r["failed_checks"]
                if not re.search(r"unwinding assertion|is not currently supported by Kani|unsupported", c["description"])]
        if not real and r["failed_checks"]:
            r["status"] = "undecided"
            r["reason"] = "only unwinding/unsupported-construct checks failed: " + "; ".join(
                c["description"] for c in r["failed_checks"])
        elif not r["failed_checks"]:
            r["status"] = "undecided"
            r["reason"] = "FAILED without a listed failed check"
    if r["status"] == "ok" and r.get("covers") and r["covers"][0] != r["covers"][1]:
        r["status"] = "undecided"
        r["reason"] = "vacuity guard: %d of %d cover properties satisfied" % r["covers"]
    if r["status"] == "ok" and r["checks"] == 0:
        r["status"] = "undecided"
        r["reason"] = "vacuity guard: zero checks generated"
    return r


def run(crate, harnesses, jobs=16, timeout=1500, extra=None, log_path=None):
    """Runs the given harnesses (short names) of one crate; returns ({short: result}, wall_s, raw)."""
    if not harnesses:
        return {}, 0.0, ""
    cmd = base_cmd(crate) + ["-j", str(jobs)]
    for h in harnesses:
        cmd += ["--harness", h]
    if extra:
        cmd += extra
    t0 = time.time()
    skipped = []
    env = dict(ENV)
    with Lock(crate):
        for attempt in range(3):
            try:
                p = subprocess.run(cmd, cwd=REPO, env=env, stdout=subprocess.PIPE, stderr=subprocess.STDOUT,
                                   timeout=timeout, preexec_fn=_limits, text=True, errors="replace")
                out = p.stdout
                timed_out = False
            except subprocess.TimeoutExpired as e:
                out = (e.stdout or b"")
                if isinstance(out, bytes):
                    out = out.decode("utf-8", "replace")
                timed_out = True
                subprocess.run(["pkill", "-9", "-x", "cbmc"], check=False)
                subprocess.run(["pkill", "-9", "-x", "kani-driver"], check=False)
                break
            # A harness module that no longer compiles against the (changed) crate must not take every
            # other harness down with it: drop exactly the offending module(s) and rebuild.
            if "could not compile" in out and "Checking harness" not in out:
                bad = set()
                in_error = False
                for line in out.splitlines():
                    if re.match(r"^error(\[E\d+\])?:", line):
                        in_error = True
                    elif re.match(r"^warning(\[\w+\])?:", line):
                        in_error = False
                    if in_error:
                        m_ = re.search(r"--> /verif/kani/%s/((?:in|h)_\w+)\.rs:" % crate, line)
                        if m_:
                            bad.add(m_.group(1))
                bad = sorted(bad - set(skipped))
                if bad:
                    skipped += bad
                    flags = " ".join("--cfg verif_skip_%s" % b for b in skipped)
                    env = dict(ENV, RUSTFLAGS=(ENV.get("RUSTFLAGS", "") + " " + flags).strip())
                    continue
            break
    wall = time.time() - t0
    if log_path:
        with open(log_path, "w") as f:
            f.write("$ " + " ".join(cmd) + "\n" + out)
    parsed, compile_error = parse_output(out)
    res = {}
    for h in harnesses:
        full = [k for k in parsed if k == h or k.endswith("::" + h)]
        if len(full) == 1:
            res[h] = classify(parsed[full[0]])
            res[h]["full_name"] = full[0]
        elif len(full) > 1:
            res[h] = {"status": "undecided", "reason": "ambiguous harness name", "checks": 0, "failed": 0,
                      "failed_checks": [], "covers": None, "time_s": 0.0, "stubs": []}
        else:
            reason = "harness produced no output"
            if skipped:
                reason = "its harness module does not compile against the current code and was dropped (%s)" % ", ".join(skipped)
            elif compile_error:
                reason = "compile error under cfg(kani): " + compile_error.strip().splitlines()[0]
            elif timed_out:
                reason = "timeout after %ds" % timeout
            res[h] = {"status": "undecided", "reason": reason, "checks": 0, "failed": 0,
                      "failed_checks": [], "covers": None, "time_s": 0.0, "stubs": []}
        if timed_out and res[h]["status"] == "undecided" and not res[h].get("reason"):
            res[h]["reason"] = "timeout after %ds" % timeout
    return res, wall, out


RE_TEST = re.compile(r"```\n(.*?)```", re.S)
RE_TESTNAME = re.compile(r"fn (kani_concrete_playback_\w+)\(")


def concrete_playback(crate, harness, timeout=900):
    """Re-runs one failing harness asking for the solver's concrete values. Returns
    (test_source or None, raw_output)."""
    res, wall, out = run(crate, [harness], jobs=1, timeout=timeout,
                         extra=["-Z", "concrete-playback", "--concrete-playback=print"])
    tests = RE_TEST.findall(out)
    tests = [t for t in tests if "kani::concrete_playback_run" in t]
    return (tests[0] if tests else None), out, res.get(harness)


RE_PB_HEAD = re.compile(r"Concrete playback unit test for `([^`]+)`:\s*\n```\n(.*?)```", re.S)


def concrete_playback_batch(crate, harnesses, timeout=3000, jobs=1):
    """One re-run of all failing harnesses asking for concrete values (Kani refuses
    --concrete-playback together with -j > 1, so they run sequentially inside one invocation).
    Returns ({harness: test_source}, raw_output)."""
    res, wall, out = run(crate, harnesses, jobs=jobs, timeout=timeout,
                         extra=["-Z", "concrete-playback", "--concrete-playback=print"])
    tests = {}
    for full, src in RE_PB_HEAD.findall(out):
        if "kani::concrete_playback_run" not in src:
            continue
        for h in harnesses:
            if full == h or full.endswith("::" + h):
                tests.setdefault(h, src)   # first test (first failed check) of the harness
    return tests, out


def native_replay_batch(crate, tests, timeout=1200):
    """Runs all playback tests natively in one `cargo kani playback`; returns {harness: (confirmed, output_tail)}."""
    if not tests:
        return {}
    names = {}
    body = ""
    for h, src in tests.items():
        m = RE_TESTNAME.search(src)
        if not m:
            continue
        names[h] = m.group(1)
        body += src + "\n"
    pb = os.path.join(BUILD, "playback")
    os.makedirs(pb, exist_ok=True)
    cur = os.path.join(pb, "current.rs" if crate == "proto" else "current_driver.rs")
    c = CRATES[crate]
    cmd = ["cargo", "kani", "playback", "-Z", "concrete-playback", "-p", c["pkg"], *c["features"], "--", "kani_concrete_playback"]
    env = dict(ENV, CARGO_TARGET_DIR=c["target"] + "-playback")
    out = ""
    with Lock(crate + "-playback"):
        try:
            with open(cur, "w") as f:
                f.write(body)
            p = subprocess.run(cmd, cwd=REPO, env=env, stdout=subprocess.PIPE, stderr=subprocess.STDOUT,
                               timeout=timeout, text=True, errors="replace")
            out = p.stdout
        except subprocess.TimeoutExpired:
            out = "playback timed out"
        finally:
            with open(cur, "w") as f:
                f.write("")
    res = {}
    for h, name in names.items():
        m = re.search(r"test \S*%s \.\.\. (\w+)" % re.escape(name), out)
        if m:
            res[h] = (m.group(1) == "FAILED", out[-2500:])
        else:
            res[h] = (None, out[-2500:])
    return res


def native_replay(crate, test_source, timeout=900):
    """Executes the solver's values against the real code, natively (`cargo kani playback`).
    Returns (confirmed: bool|None, output)."""
    m = RE_TESTNAME.search(test_source)
    if not m:
        return None, "no test name in playback source"
    name = m.group(1)
    pb = os.path.join(BUILD, "playback")
    os.makedirs(pb, exist_ok=True)
    cur = os.path.join(pb, "current.rs" if crate == "proto" else "current_driver.rs")
    c = CRATES[crate]
    cmd = ["cargo", "kani", "playback", "-Z", "concrete-playback", "-p", c["pkg"], *c["features"], "--", name]
    env = dict(ENV, CARGO_TARGET_DIR=c["target"] + "-playback")
    with Lock(crate + "-playback"):
        try:
            with open(cur, "w") as f:
                f.write(test_source)
            p = subprocess.run(cmd, cwd=REPO, env=env, stdout=subprocess.PIPE, stderr=subprocess.STDOUT,
                               timeout=timeout, text=True, errors="replace")
            out = p.stdout
        except subprocess.TimeoutExpired:
            out = "playback timed out"
            p = None
        finally:
            with open(cur, "w") as f:
                f.write("")
    if p is None:
        return None, out
    if re.search(r"test result: FAILED|panicked at", out):
        return True, out
    if re.search(r"test result: ok\. 1 passed", out):
        return False, out
    return None, out


def ensure_playback_files():
    pb = os.path.join(BUILD, "playback")
    os.makedirs(pb, exist_ok=True)
    for n in ("current.rs", "current_driver.rs"):
        p = os.path.join(pb, n)
        if not os.path.exists(p):
            open(p, "w").close()


def decode_concrete_vals(test_source):
    """Extracts the byte vectors of a playback test as lists of ints (for known-finding matching
    and for the replay json)."""
    vals = []
    for m in re.finditer(r"vec!\[([0-9, ]*)\]", test_source):
        body = m.group(1).strip()
        vals.append([int(x) for x in body.split(",") if x.strip()] if body else [])
    return vals
