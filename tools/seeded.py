#!/usr/bin/env python3
"""Seeded-change bookkeeping.

  tools/seeded.py import <PROP> <agent_out_dir>     copy /tmp/wt_<PROP>_out/<n> into seeded/<PROP>-<n>/
  tools/seeded.py confirm <id> [...]                 independently confirm in a scratch worktree:
                                                     existing tests pass with the change, demo fails with it,
                                                     demo passes without it
  tools/seeded.py check <id> [...] [--tier quick]    apply to /repo, run the listed checks, revert; record result
  tools/seeded.py index                              regenerate seeded/INDEX.md
"""
import json
import os
import re
import shutil
import subprocess
import sys
import time

VERIF = os.path.dirname(os.path.dirname(os.path.abspath(__file__)))
SEEDED = os.path.join(VERIF, "seeded")
REPO = "/repo"
ENV = dict(os.environ, CARGO_NET_OFFLINE="true")


def sh(cmd, cwd=None, env=None, timeout=3600):
    p = subprocess.run(cmd, shell=True, cwd=cwd, env=env or ENV, stdout=subprocess.PIPE, stderr=subprocess.STDOUT,
                       text=True, errors="replace", timeout=timeout)
    return p.returncode, p.stdout


def do_import(prop, outdir):
    for n in sorted(os.listdir(outdir)):
        src = os.path.join(outdir, n)
        if not os.path.isdir(src):
            continue
        dst = os.path.join(SEEDED, "%s-%s" % (prop, n))
        os.makedirs(dst, exist_ok=True)
        for f in ("patch.diff", "demo.rs", "meta.json"):
            if os.path.exists(os.path.join(src, f)):
                shutil.copy(os.path.join(src, f), os.path.join(dst, f))
        print("imported", dst)


def demo_placement(meta, demo_src):
    # integration test in wtransport-proto/tests unless the meta says otherwise
    return "wtransport-proto/tests/demo_seeded.rs"


def confirm(sid):
    d = os.path.join(SEEDED, sid)
    meta = json.load(open(os.path.join(d, "meta.json")))
    wt = "/tmp/wt_confirm"
    target = "/tmp/wt_confirm_target"
    sh("git -C %s worktree remove --force %s" % (REPO, wt))
    rc, out = sh("git -C %s worktree add %s HEAD -q" % (REPO, wt))
    env = dict(ENV, CARGO_TARGET_DIR=target)
    res = {"at": time.strftime("%Y-%m-%dT%H:%M:%SZ", time.gmtime()), "repo_head": sh("git -C %s rev-parse --short HEAD" % REPO)[1].strip()}
    try:
        rc, out = sh("git apply --check %s && git apply %s" % (os.path.join(d, "patch.diff"), os.path.join(d, "patch.diff")), cwd=wt)
        res["patch_applies"] = rc == 0
        if rc != 0:
            res["error"] = out[-500:]
            return res
        rc, out = sh("cargo test --workspace --offline 2>&1 | grep -E '^test result|FAILED|error(\\[|:)' ", cwd=wt, env=env)
        passed = sum(int(x) for x in re.findall(r"test result: ok\. (\d+) passed", out))
        failed = "FAILED" in out or "error" in out
        res["existing_tests_with_change"] = {"passed": passed, "any_failure": failed, "cmd": "cargo test --workspace --offline"}
        place = meta.get("demo_placement") or {"mode": "file", "path": "wtransport-proto/tests/demo_seeded.rs",
                                                 "cmd": "cargo test -p wtransport-proto --features async --offline --test demo_seeded"}
        demo_path = os.path.join(wt, place["path"])
        os.makedirs(os.path.dirname(demo_path), exist_ok=True)
        demo_src = open(os.path.join(d, "demo.rs")).read()

        def put_demo():
            if place["mode"] == "append":
                with open(demo_path, "a") as f:
                    f.write("\n" + demo_src)
            else:
                with open(demo_path, "w") as f:
                    f.write(demo_src)

        put_demo()
        cmd = place["cmd"] + " 2>&1 | grep -E '^test result|panicked|error(\\[|:)' | head -8"
        rc, out = sh(cmd, cwd=wt, env=env)
        res["demo_with_change"] = {"fails": "FAILED" in out or "panicked" in out, "tail": out[-600:], "cmd": place["cmd"]}
        # back to the unmodified source, demo only
        sh("git checkout -- . ", cwd=wt)
        put_demo()
        rc, out = sh(cmd, cwd=wt, env=env)
        res["demo_without_change"] = {"passes": bool(re.search(r"test result: ok\. [1-9]", out)) and "FAILED" not in out, "tail": out[-300:]}
        res["confirmed"] = (passed >= 76 and not failed and res["demo_with_change"]["fails"] and res["demo_without_change"]["passes"])
    finally:
        sh("git -C %s worktree remove --force %s" % (REPO, wt))
    return res


def run_check(sid, tier, props=None):
    d = os.path.join(SEEDED, sid)
    meta = json.load(open(os.path.join(d, "meta.json")))
    props = props or meta.get("checks") or [meta["property"]]
    rc, out = sh("git -C %s status --porcelain" % REPO)
    if out.strip():
        raise SystemExit("/repo is not clean: refusing to apply a seeded change")
    rc, out = sh("git -C %s apply %s" % (REPO, os.path.join(d, "patch.diff")))
    if rc != 0:
        return {"error": "patch does not apply to /repo: " + out[-300:]}
    results = {}
    try:
        for p in props:
            t0 = time.time()
            env = dict(ENV, VERIF_ONLY=",".join(meta.get("only", []))) if meta.get("only") else ENV
            rc, out = sh("./check %s --tier %s" % (p, tier), cwd=VERIF, env=env, timeout=7200)
            lines = [l for l in out.splitlines() if l.startswith(("VIOLATION", "UNDECIDED", "KNOWN-FINDING")) or " tier=" in l]
            results[p] = {"exit": rc, "lines": lines[:12], "wall_s": round(time.time() - t0, 1)}
            if meta.get("only"):
                results[p]["subset_run"] = meta["only"]
    finally:
        sh("git -C %s checkout -- ." % REPO)
    return results


def index():
    rows = []
    for sid in sorted(os.listdir(SEEDED)):
        d = os.path.join(SEEDED, sid)
        if not os.path.isdir(d) or not os.path.exists(os.path.join(d, "meta.json")):
            continue
        meta = json.load(open(os.path.join(d, "meta.json")))
        conf = meta.get("confirmation", {}).get("confirmed")
        det = meta.get("detection", {})
        cell = []
        for tier in ("quick", "thorough"):
            for p, r in det.get(tier, {}).items():
                viol = [l for l in r.get("lines", []) if l.startswith("VIOLATION")]
                obl = sorted(set(re.sub(r".*replay=/verif/replay/[^-]*-([A-Za-z0-9_]+?)-[0-9a-f]{10}\.json.*", r"\1", l) for l in viol))
                cell.append("%s/%s: exit %s%s" % (p, tier, r.get("exit"), (" (" + ", ".join(obl) + ")") if obl else ""))
        rows.append("| %s | %s | %s | %s | %s |" % (sid, meta.get("property"), (meta.get("what", "")[:160]).replace("|", "/").replace("\n", " "),
                                               {True: "yes", False: "NO", None: "-"}[conf], "<br>".join(cell) or "-"))
    with open(os.path.join(SEEDED, "INDEX.md"), "w") as f:
        f.write("# Seeded changes\n\nEach directory holds `patch.diff`, `demo.rs` and `meta.json` (property, what it needs to manifest, "
                "the independent confirmation run, and which checks report it). Changes were written by sub-agents that saw only the "
                "property text. exit 1 = VIOLATION reported (detected), exit 0 = missed, exit 2 = undecided.\n\n"
                "| id | property | change | confirmed | detection |\n|---|---|---|---|---|\n" + "\n".join(rows) + "\n")
    print("wrote INDEX.md with %d rows" % len(rows))


def main():
    a = sys.argv[1:]
    if not a:
        print(__doc__)
        return
    if a[0] == "import":
        do_import(a[1], a[2])
    elif a[0] == "confirm":
        for sid in a[1:]:
            r = confirm(sid)
            mp = os.path.join(SEEDED, sid, "meta.json")
            meta = json.load(open(mp))
            meta["confirmation"] = r
            json.dump(meta, open(mp, "w"), indent=1)
            print(sid, "confirmed" if r.get("confirmed") else "NOT CONFIRMED", json.dumps({k: v for k, v in r.items() if k != "at"})[:400])
    elif a[0] == "check":
        tier = "quick"
        ids = []
        props = None
        i = 1
        while i < len(a):
            if a[i] == "--tier":
                tier = a[i + 1]
                i += 2
            elif a[i] == "--props":
                props = a[i + 1].split(",")
                i += 2
            else:
                ids.append(a[i])
                i += 1
        for sid in ids:
            r = run_check(sid, tier, props)
            mp = os.path.join(SEEDED, sid, "meta.json")
            meta = json.load(open(mp))
            meta.setdefault("detection", {}).setdefault(tier, {}).update(r if "error" not in r else {"_error": r})
            json.dump(meta, open(mp, "w"), indent=1)
            print(sid, json.dumps(r)[:600])
    elif a[0] == "index":
        index()


if __name__ == "__main__":
    main()
